#!/bin/bash
# usage: tools/confirm_seed.sh <seed-dir> integ <demo.rs> [test args]
#        tools/confirm_seed.sh <seed-dir> unit  <demo.rs> <tests-dir-relative-to-src> <filter>
# Confirms a seeded change in a scratch worktree: (1) applies cleanly and the pinned suite still passes,
# (2) the demonstration FAILS with the change, (3) the demonstration PASSES without it.
# Writes <seed-dir>/confirm.log and prints a one-line verdict. Removes the worktree afterwards.
set -u
seed=$(realpath "$1"); kind=$2; demo=$3
wt=/tmp/wtc-$$
git -C /repo worktree add -q --detach $wt HEAD || exit 2
export CARGO_TARGET_DIR=$wt/target
log=$seed/confirm.log; : > $log
cd $wt
install_demo() {
  if [ "$kind" = integ ]; then
    mkdir -p crates/axmos-db/tests && cp "$seed/$demo" crates/axmos-db/tests/
  else
    T=crates/axmos-db/src/$4
    cp "$seed/$demo" $T/
    printf '\n#[cfg(not(miri))]\nmod %s;\n' "$(basename $demo .rs)" >> $T/mod.rs
  fi
}
run_demo() {
  if [ "$kind" = integ ]; then
    timeout 1200 cargo test -p axmosdb --offline ${FEATURES:+--features $FEATURES} --test "$(basename $demo .rs)" -- --test-threads=1 2>&1 | grep -E "^test |test result" 
  else
    timeout 1200 cargo test -p axmosdb --lib --offline "$1" -- --test-threads=1 2>&1 | grep -E "^test |test result"
  fi
}
git apply "$seed/patch.diff" || { echo "VERDICT $seed: patch does not apply" | tee -a $log; cd /; git -C /repo worktree remove --force $wt; exit 1; }
echo "== suite with change" >> $log
timeout 1500 cargo test --workspace --no-fail-fast --offline 2>&1 | grep -E "^test result|FAILED|panicked" | grep -v "0 passed; 0 failed" >> $log
suite_ok=$(grep -c "test result: ok. 64[45] passed; 0 failed" $log)
echo "== demo with change" >> $log
install_demo "$@"
run_demo "${5:-}" >> $log
with_fail=$(sed -n "/== demo with change/,\$p" $log | grep -c -E "test result: FAILED|error: test failed")
git apply -R "$seed/patch.diff"
echo "== demo without change" >> $log
run_demo "${5:-}" >> $log
without_ok=$(sed -n '/== demo without change/,$p' $log | grep -c "test result: ok")
without_fail=$(sed -n '/== demo without change/,$p' $log | grep -c "test result: FAILED")
cd /
git -C /repo worktree remove --force $wt
echo "VERDICT $seed: suite_ok=$suite_ok demo_fails_with_change=$with_fail demo_passes_without=$without_ok (failures without: $without_fail)" | tee -a $log
