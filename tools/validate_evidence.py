#!/usr/bin/env python3
"""Minimal structural validation of an evidence file (full schema validation needs jsonschema, which
only the tooling venv has; this covers the required keys so that a broken writer is noticed at once)."""
import json, sys
p = sys.argv[1]
try:
    e = json.load(open(p))
except Exception as ex:
    print(f"MACHINERY-ERROR: evidence {p} unreadable: {ex}", file=sys.stderr); sys.exit(1)
req = ["property_id", "tier", "seed", "level", "coverage", "wall_s"]
miss = [k for k in req if k not in e]
cov = e.get("coverage", {})
lvl = e.get("level")
if lvl == "model_checking":
    need = ["states", "transitions", "traces_validated_against_impl", "samples"]
else:
    need = ["evaluations", "distinct_nontrivial", "rule", "samples"]
miss += [f"coverage.{k}" for k in need if k not in cov]
if not miss and lvl != "model_checking" and cov.get("distinct_nontrivial", 0) < 2:
    miss.append("coverage.distinct_nontrivial>=2")
if not miss and not cov.get("samples"):
    miss.append("coverage.samples non-empty")
if miss:
    print(f"MACHINERY-ERROR: evidence {p} incomplete: {miss}", file=sys.stderr); sys.exit(1)
try:
    import jsonschema
    jsonschema.validate(e, json.load(open("/root/.vp/EVIDENCE.schema.json")))
except ImportError:
    pass
except Exception as ex:
    print(f"MACHINERY-ERROR: evidence {p} fails the schema: {ex}", file=sys.stderr); sys.exit(1)
