#!/usr/bin/env python3
"""Free-running race-detector pass of C14 (complements the scheduler-driven exploration, does not replace it).
Runs the scenario bodies with real unscheduled threads under ThreadSanitizer (binary built by ./check from
conc/tsan) and merges what it saw into evidence/C14.json. This pass SAMPLES schedules; it exists because a
cooperative scheduler's hand-offs hide unsynchronised accesses from a detector.
usage: c14_tsan.py <verif-root> <binary or ''> <rounds>
exit 0 = nothing found (or pass unavailable), 1 = VIOLATION printed."""
import json, os, subprocess, sys, glob, shutil, time
root, binary, rounds = sys.argv[1], sys.argv[2], sys.argv[3]
evp = os.path.join(root, 'evidence', 'C14.json')
ev = json.load(open(evp)) if os.path.exists(evp) else None
def finish(info, code):
    if ev is not None:
        ev['coverage']['race_detector_pass'] = info
        json.dump(ev, open(evp, 'w'), indent=1)
    sys.exit(code)
if not binary or not os.path.exists(binary):
    print('[C14] race-detector pass: not available (sanitizer build failed); the scheduler-driven verdict stands alone', file=sys.stderr)
    finish({'ran': False, 'reason': 'ThreadSanitizer build (-Zbuild-std) not available'}, 0)
logbase = '/dev/shm/verif-tsanlog-%d' % os.getpid()
env = dict(os.environ, TSAN_OPTIONS='log_path=%s halt_on_error=0 exitcode=0 report_signal_unsafe=0' % logbase)
t0 = time.time()
hung = False
try:
    p = subprocess.run([binary, rounds], capture_output=True, text=True, env=env, timeout=600)
    out = p.stdout
except subprocess.TimeoutExpired as e:
    hung = True
    out = (e.stdout or b'').decode() if isinstance(e.stdout, bytes) else (e.stdout or '')
    subprocess.run(['pkill', '-9', '-x', 'verif-tsan'])
logs = glob.glob(logbase + '*')
races = []
for f in logs:
    txt = open(f, errors='replace').read()
    for blk in txt.split('=================='):
        if 'ThreadSanitizer: data race' in blk and 'axmosdb::' in blk:
            races.append(blk.strip()[:3000])
known_scen = set()
kf = open(os.path.join(root, 'known_findings.txt')).read()
# scenarios whose non-serial outcomes are listed findings of the scheduler-driven check
for scen, fid in [('delete-same-row', 'KC-no-ww-conflict-double-delete'), ('increment-same-row', 'KC-no-ww-conflict-lost-update'), ('drop-vs-select', 'KC-drop-frees-pages-under-reader'), ('eviction-overflow-inserters', 'KC-oom-mid-split-loses-rows')]:
    if ('known: property=C14 id=%s ' % fid) in kf:
        known_scen.add(scen)
summary = []
try:
    summary = json.loads(out.strip().split('\n')[-1]) if out.strip() else []
except Exception:
    summary = []
code = 0
repdir = os.path.join(root, 'replays'); os.makedirs(repdir, exist_ok=True)
if hung:
    path = os.path.join(repdir, 'C14-freerun-hang.txt'); open(path, 'w').write('free-running pass did not finish within 600 s\n' + out[-2000:])
    print('VIOLATION property=C14 replay=%s\n  the free-running run of the scenario bodies (real threads, real parking_lot) hung: a deadlock or livelock outside the scheduler model' % path)
    code = 1
for i, r in enumerate(races[:5]):
    path = os.path.join(repdir, 'C14-tsan-race-%d.txt' % i); open(path, 'w').write(r)
    print('VIOLATION property=C14 replay=%s\n  ThreadSanitizer reports a data race in engine code during the free-running run:\n  %s' % (path, r.split('\n')[0]))
    code = 1
outside = [s for s in summary if s.get('outcomes_outside_serial_set', 0) > 0 and s['scenario'] not in known_scen]
for s in outside:
    path = os.path.join(repdir, 'C14-freerun-%s.json' % s['scenario']); json.dump(s, open(path, 'w'))
    print('VIOLATION property=C14 replay=%s\n  free-running run of scenario %s: %d of %d rounds ended in an outcome no serial order produces' % (path, s['scenario'], s['outcomes_outside_serial_set'], s['rounds']))
    code = 1
for f in logs:
    os.remove(f)
print('[C14] race-detector pass: %d scenarios x %s rounds, %d data-race reports in engine code, hung=%s, %.1fs' % (len(summary), rounds, len(races), hung, time.time() - t0), file=sys.stderr)
finish({'ran': True, 'kind': 'sampling (free-running threads under ThreadSanitizer); complementary, not the deciding step', 'scenarios': len(summary), 'rounds_per_scenario': int(rounds), 'data_race_reports_in_engine_code': len(races), 'hung': hung, 'scenarios_with_non_serial_outcomes': [s['scenario'] for s in summary if s.get('outcomes_outside_serial_set', 0) > 0], 'wall_s': round(time.time() - t0, 1)}, code)
