#!/bin/bash
# usage: tools/seed_matrix.sh [tier]  -- applies every kept seeded change to /repo in turn, runs the check of
# its property, reverts, and writes seeded/MATRIX.txt (one line per seed). /repo must be clean.
set -u
tier=${1:-quick}
cd /repo || exit 2
if ! git diff --quiet; then echo "/repo has uncommitted changes"; exit 2; fi
out=/verif/seeded/MATRIX.txt
echo "# seed | property | check exit (1 = VIOLATION reported = detected) | repo commit $(git rev-parse --short HEAD) | tier $tier" > $out
for d in /verif/seeded/C*/; do
  id=$(basename $d)
  prop=$(python3 -c "import json;print(json.load(open('$d/meta.json'))['property'])")
  pf=$d/patch.diff; [ -f $d/patch-rebased.diff ] && pf=$d/patch-rebased.diff
  cd /repo
  if ! git apply --check "$pf" 2>/dev/null; then echo "$id | $prop | patch does not apply to the current tree" >> $out; continue; fi
  git apply "$pf"
  cd /verif
  timeout 1500 ./check $prop $tier > /tmp/matrix-$id.out 2>&1
  code=$?
  git -C /repo checkout -- .
  nv=$(grep -a -c "^VIOLATION" /tmp/matrix-$id.out)
  echo "$id | $prop | exit=$code violations_printed=$nv" >> $out
done
cat $out
