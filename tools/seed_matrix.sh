#!/bin/bash
# usage: tools/seed_matrix.sh [tier]  -- applies every kept seeded change to /repo in turn, runs the check of
# its property, reverts, and writes seeded/MATRIX.txt (one line per seed). /repo must be clean.
set -u
tier=${1:-quick}
cd /repo || exit 2
if ! git diff --quiet; then echo "/repo has uncommitted changes"; exit 2; fi
out=/verif/seeded/MATRIX.txt
echo "# seed | property | check exit (1 = VIOLATION reported = detected) | repo commit $(git rev-parse --short HEAD) | tier $tier" > $out
for d in /verif/seeded/C*/; do
  id=$(basename $d)
  prop=$(python3 -c "import json;print(json.load(open('$d/meta.json'))['property'])")
  # checks to run: the property's own, or the list in meta.json "check_with" (a change can be visible to the
  # check of a neighbouring property only, e.g. a cache defect that needs two clients)
  checks=$(python3 -c "import json;m=json.load(open('$d/meta.json'));print(' '.join(m.get('check_with') or [m['property']]))")
  pf=$d/patch.diff; [ -f $d/patch-rebased.diff ] && pf=$d/patch-rebased.diff
  if python3 -c "import json,sys;sys.exit(0 if json.load(open('$d/meta.json')).get('neutralised_by') else 1)"; then echo "$id | $prop | neutralised by a later engine fix (see meta.json); not run" >> $out; continue; fi
  cd /repo
  if ! git apply --check "$pf" 2>/dev/null; then echo "$id | $prop | patch does not apply to the current tree" >> $out; continue; fi
  git apply "$pf"
  cd /verif
  line="$id | $prop |"
  for c in $checks; do
    timeout 1500 ./check $c $tier > /tmp/matrix-$id-$c.out 2>&1
    code=$?
    nv=$(grep -a -c "^VIOLATION" /tmp/matrix-$id-$c.out)
    line="$line $c: exit=$code violations_printed=$nv;"
  done
  git -C /repo checkout -- .
  echo "$line" >> $out
done
cat $out
