#!/usr/bin/env python3
"""Generates the prompt handed to a seeding sub-agent: ONLY the property text and a scratch worktree path."""
import json,sys
props={json.loads(l)['id']:json.loads(l) for l in open('/verif/properties.jsonl')}
T=open('/verif/tools/seed_prompt.tmpl').read()
pid=sys.argv[1]; tag=sys.argv[2] if len(sys.argv)>2 else pid
p=props[pid]
print(T.replace('{WT}',f'/tmp/wt-{tag}').replace('{TITLE}',p['title']).replace('{STATEMENT}',p['statement']).replace('{QUANT}',p['quantifier']['text']))
