#!/usr/bin/env python3
"""Generates the prompt handed to a seeding sub-agent: ONLY the property text and a scratch worktree path.
usage: seed_prompt.py <Cxx> [tag] [mechanism-index]   (the optional mechanism is one of the property's own anchors)"""
import json,sys
props={json.loads(l)['id']:json.loads(l) for l in open('/verif/properties.jsonl')}
T=open('/verif/tools/seed_prompt.tmpl').read()
pid=sys.argv[1]; tag=sys.argv[2] if len(sys.argv)>2 else pid
p=props[pid]
out=T.replace('{WT}',f'/tmp/wt-{tag}').replace('{TITLE}',p['title']).replace('{STATEMENT}',p['statement']).replace('{QUANT}',p['quantifier']['text'])
if len(sys.argv)>3:
    m=p['anchors']['mechanism'][int(sys.argv[3])]
    out+=f"\n\nFocus: the property names several mechanisms; put your change into this one: {m['name']} ({m['where']})."
print(out)
