#!/bin/bash
# usage: tools/try_seed.sh <patch.diff> <Cxx> [tier]   -- applies a seeded change to /repo, runs the check, reverts
set -u
patch=$1; prop=$2; tier=${3:-quick}
cd /repo || exit 2
if ! git diff --quiet; then echo "/repo has uncommitted changes"; exit 2; fi
git apply "$patch" || { echo "patch does not apply"; exit 2; }
cd /verif
./check $prop $tier > /tmp/try_seed.out 2>&1
code=$?
git -C /repo checkout -- .
echo "exit=$code"
grep -E "^VIOLATION|^\[|^KNOWN|MACHINERY" /tmp/try_seed.out | cut -c1-220 | head -20
