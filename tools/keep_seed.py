#!/usr/bin/env python3
"""usage: keep_seed.py <seed-src-dir> <seed-id> <property> <needs> <what_i_ran> <detected_by>
Copies a confirmed seeded change into /verif/seeded/<seed-id>/ (patch.diff, demo files, notes, confirm.log, meta.json)."""
import sys, os, shutil, json
src, sid, prop, needs, ran, det = sys.argv[1:7]
dst = f"/verif/seeded/{sid}"
os.makedirs(dst, exist_ok=True)
for f in os.listdir(src):
    if f.endswith(('.log',)) and f != 'confirm.log': continue
    if os.path.isfile(os.path.join(src, f)): shutil.copy(os.path.join(src, f), dst)
verdict = [l for l in open(os.path.join(src, 'confirm.log')) if l.startswith('VERDICT')]
json.dump({"seed_id": sid, "property": prop, "breaks": prop, "needs_to_manifest": needs,
           "confirmed": verdict[-1].strip() if verdict else "not confirmed",
           "what_was_run": ran, "detected_by": det}, open(os.path.join(dst, 'meta.json'), 'w'), indent=1)
print("kept", dst, os.listdir(dst))
