#!/usr/bin/env python3
"""Regenerates /verif/MANIFEST.json from the table below (kept in one place so it stays valid)."""
import json, subprocess
props = [json.loads(l) for l in open('/verif/properties.jsonl')]
hook_commits = subprocess.run("git -C /repo log --format=%h --grep='^verif:'", shell=True, capture_output=True, text=True).stdout.split()

MC = "model_checking"; FE = "fault_enumeration"; EX = "exploration"
CHECKS = {
 "C03": dict(engine="seq", cat=MC, ref="7/C03",
   technique="explicit-state BFS over operation sequences of the real engine (public API), state-deduplicated on a reference MVCC model, step-wise conformance to a snapshot-isolation model",
   text="Every sequence (to the completed depth) of begin/insert/multi-row insert/delete/update/create table/failing statement/commit/rollback/session drop/autocommit/batch operations of two sessions is executed on the real engine and each result, plus a fresh-transaction read of all tables at the end of every history, is compared with a snapshot-isolation reference model; exhaustive within the alphabet and depth.",
   note="Trusted: the reference model (harness/src/model.rs) and the statement-granularity driver; alphabet of 2 sessions, 4 keys, 2 tables; histories that trigger a listed known finding are judged only up to the trigger."),
 "C04": dict(engine="seq", cat=MC, ref="7/C04",
   technique="explicit-state BFS over all statement interleavings of 2-3 sessions on the real engine, step-wise conformance to a snapshot-isolation model",
   text="All interleavings (to the completed depth) of the statements of 2 (quick) / 3 (thorough) concurrent sessions plus autocommit writers over colliding rows, on a table without index and on one with a unique index; every read result, every statement outcome and the final committed state are compared with the textbook snapshot-isolation model (snapshot at begin + own writes, first committer wins).",
   note="Trusted: the reference model; statement-level interleavings only (a statement runs to completion before the next is issued); UPDATE-related and write-write-conflict histories are listed known findings and judged only up to the hazard."),
}

def cmd(pid, tier): return f"./check {pid} {tier}"
checks = []
for p in props:
    c = CHECKS.get(p["id"])
    if not c: continue
    checks.append({
        "property_id": p["id"],
        "quick_cmd": cmd(p["id"], "quick"),
        "thorough_cmd": cmd(p["id"], "thorough"),
        "evidence_file": f"/verif/evidence/{p['id']}.json",
        "replay_cmd_template": f"./check {p['id']} --replay {{path}}",
        "engine": c["engine"],
        "level_claimed": {"category": c["cat"], "text": c["text"], "design_ref": c["ref"]},
        "level_note": c["note"],
        "technique": c["technique"],
    })
NA_REASON = "check not built yet in this round (work in progress; DESIGN.md section 11 gives the build order) - not a statement that the technique cannot apply"
m = {
 "version": 1,
 "setup_cmd": "./check --setup",
 "hooks": {
   "guard": "cargo feature `verif` of crate axmosdb (crates/axmos-db/Cargo.toml)",
   "enable": "harness/Cargo.toml path-depends on /repo/crates/axmos-db with features=[\"verif\"]; ./check rebuilds it from /repo's working tree on every invocation",
   "baseline_off_cmd": "cd /repo && cargo test --workspace --no-fail-fast --offline",
   "source_commits": hook_commits,
   "add_only": True},
 "engines": [
   {"name": "seq", "path": "harness/src/engines/seq.rs", "serves_properties": [k for k,v in CHECKS.items() if v["engine"]=="seq"],
    "kind_free_text": "explicit-state BFS over statement-level operation sequences of the real engine through its public API, in 16 worker subprocesses, against a reference MVCC/SI model"},
 ],
 "checks": checks,
 "not_applicable": [{"property_id": p["id"], "reason": NA_REASON} for p in props if p["id"] not in CHECKS],
 "notes": "All checks: ./check <Cxx> <quick|thorough>; exit 0 = held (KNOWN-FINDING lines possible), 1 = VIOLATION line, >=2 = machinery failure. known_findings.txt lists recorded defects; DESIGN.md explains the approach.",
}
json.dump(m, open('/verif/MANIFEST.json','w'), indent=1)
print("checks:", [c["property_id"] for c in checks])
