#!/usr/bin/env python3
"""Regenerates /verif/MANIFEST.json from the table below (kept in one place so it stays valid)."""
import json, subprocess
props = [json.loads(l) for l in open('/verif/properties.jsonl')]
hook_commits = subprocess.run("git -C /repo log --format=%h --grep='^verif:'", shell=True, capture_output=True, text=True).stdout.split()

MC = "model_checking"; FE = "fault_enumeration"; EX = "exploration"
CHECKS = {
 "C01": dict(engine="crash", cat=FE, ref="7/C01",
   technique="exhaustive crash-point enumeration: every prefix of the recorded file-mutation stream of every history of a BFS over the real engine, reopened and compared with the reference model",
   text="For every history of the breadth-first search (autocommit and two-session committed work, DDL, multi-page rows, flush and VACUUM checkpoints; seeds: fresh database, checkpointed-and-reopened database, log block zero about 90% full) the I/O tap records every file mutation; every prefix of that stream is rebuilt as an on-disk image, opened with Database::open, and every table compared with the model's committed state after the acknowledged commits (or that plus the one commit in flight).",
   note="Crash model is the property's own (a crash leaves a prefix of the mutation stream; torn/reordered writes not modelled). Trusted: I/O tap (hook in DBFile), reference model. Crash points inside earlier operations of a history are covered by the parent history. Two listed findings (log beyond block zero, torn multi-page write-back) are applied only to failing crash points inside their trigger windows."),
 "C02": dict(engine="crash", cat=FE, ref="7/C02",
   technique="exhaustive crash-point enumeration over histories with committed, rolled-back, dropped, failed and still-open transactions, exact comparison with the reference model",
   text="As C01, over histories that mix committed, explicitly rolled-back, dropped, failed and still-open transactions (inserts, updates, deletes, DDL) with cache sizes 10000 and 16 pages; at every crash prefix the recovered contents must equal EXACTLY the model's committed state for the acknowledged commits (or that plus the whole in-flight commit).",
   note="As C01. Histories whose close rolls back an UPDATE (listed finding: UPDATE is not undone) are not crash-enumerated; their extensions are."),
 "C08": dict(engine="crash", cat=FE, ref="7/C08",
   technique="exhaustive crash-point enumeration nested to depth 2 (every prefix of the recovery's own mutation stream) plus repeated open/close cycles",
   text="For every history and every crash prefix Database::open must succeed and all tables be readable; two further open/close cycles must not change the contents; the recovery's own file mutations are recorded and for every prefix of them a second image is built and opened, which must succeed and yield the contents of the uninterrupted recovery.",
   note="As C01. Listed finding: recovery resets the log before what it rebuilt is on disk, so nested crash points after that truncation lose the recovered data; applied only to failing nested points after the truncation."),
 "C03": dict(engine="seq", cat=MC, ref="7/C03",
   technique="explicit-state BFS over operation sequences of the real engine (public API), state-deduplicated on a reference MVCC model, step-wise conformance to a snapshot-isolation model",
   text="Every sequence (to the completed depth) of begin/insert/multi-row insert/delete/update/create table/failing statement/commit/rollback/session drop/autocommit/batch operations of two sessions is executed on the real engine and each result, plus a fresh-transaction read of all tables at the end of every history, is compared with a snapshot-isolation reference model; exhaustive within the alphabet and depth.",
   note="Trusted: the reference model (harness/src/model.rs) and the statement-granularity driver; alphabet of 2 sessions, 4 keys, 2 tables; histories that trigger a listed known finding are judged only up to the trigger."),
 "C04": dict(engine="seq", cat=MC, ref="7/C04",
   technique="explicit-state BFS over all statement interleavings of 2-3 sessions on the real engine, step-wise conformance to a snapshot-isolation model",
   text="All interleavings (to the completed depth) of the statements of 2 (quick) / 3 (thorough) concurrent sessions plus autocommit writers over colliding rows, on a table without index and on one with a unique index; every read result, every statement outcome and the final committed state are compared with the textbook snapshot-isolation model (snapshot at begin + own writes, first committer wins).",
   note="Trusted: the reference model; statement-level interleavings only (a statement runs to completion before the next is issued); UPDATE-related and write-write-conflict histories are listed known findings and judged only up to the hazard."),
 "C05": dict(engine="sqlenum", cat=EX, ref="7/C05",
   technique="exhaustive enumeration of a bounded query grammar against fixed populations on the real engine, each answer compared with a reference evaluator (three-valued logic) run on a mirror of the data",
   text="Every query of a bounded grammar over three small tables with NULLs, duplicates, negative/zero/large values and prefix-related texts: WHERE a / NOT a / NOT NOT a for 51 typed atoms (comparisons, IS [NOT] NULL, [NOT] BETWEEN, [NOT] IN with and without NULL, [NOT] LIKE, arithmetic in every precedence/associativity shape, unary minus), a AND b / a OR b for ALL ordered pairs of atoms, ten three-atom shapes printed with minimal parentheses over a 12-atom subset (quick: an eighth of the triples), all pairs of 12 select-list expressions, COUNT/SUM/AVG/MIN/MAX of every column under four predicates and under GROUP BY, ORDER BY every column asc/desc with one and two keys, LIMIT x OFFSET grids, DISTINCT, JOIN/INNER/LEFT/RIGHT x four ON conditions x nine WHERE shapes (left-only, right-only, both sides, conjunctions, IS NULL), CROSS and comma joins, three-table joins in every written order, and DELETE/UPDATE ... WHERE atom, multi-column and expression updates and multi-row INSERT with reported count and resulting table.",
   note="Trusted: the reference evaluator (harness/src/sqlmodel.rs) - it interprets the expression TREE, the engine gets the minimal-parentheses text, so parser precedence is compared too. Division, modulo, CASE, sub-queries, HAVING and scalar functions are outside this grammar. Two listed findings (RIGHT JOIN, three-way explicit JOIN) are applied only to failing queries of exactly those shapes."),
 "C07": dict(engine="seq", cat=MC, ref="7/C07",
   technique="explicit-state BFS over operation sequences of the real engine, step-wise conformance to a constraint-aware snapshot-isolation model",
   text="Every sequence (to the completed depth) of insert / duplicate insert / NULL insert / multi-row insert with a duplicate / delete / re-insert / update-to-key / rollback / VACUUM operations of two sessions plus autocommit, on tables whose UNIQUE and NOT NULL constraints are declared in CREATE TABLE (single and two-column) or added by CREATE UNIQUE INDEX on populated data; every statement must be accepted or rejected exactly as the model says and every fresh read must equal the model, which keeps the committed-state invariant by construction.",
   note="Trusted: the reference model; keys from {1,2,3,NULL}; PRIMARY KEY syntax is exercised only through UNIQUE (same code path); histories that trigger a listed known finding (UPDATE on indexed tables, concurrent inserters of one key, NULL in a unique column, ...) are judged only up to the trigger."),
 "C09": dict(engine="seq", cat=MC, ref="7/C09",
   technique="explicit-state BFS over operation sequences split by flush/VACUUM/close-reopen on the real engine, model carried across reopen",
   text="Every sequence (to the completed depth) of DML/DDL (unique table, second table with multi-page overflow rows, rollbacks, DROP TABLE, flush, VACUUM) split at arbitrary points by close/reopen; after every history without an open session the database is additionally closed, reopened (in the second search with a different DBConfig than it was created with: page size 8192 vs 4096, cache 64 vs 10000, min keys 4 vs 3) and every table read back and compared with the model; probe inserts after reopen check that constraints, row ids and object ids carried over.",
   note="Trusted: the reference model; two creation-time configurations; the >8192-transaction part of the property (aborted-transaction bitmap) is not covered in the quick tier."),
 "C10": dict(engine="btree", cat=MC, ref="7/C10",
   technique="explicit-state BFS over operation sequences on the real B+tree over the real pager (verif facade), conformance to an ordered-map model plus a page-graph audit after every operation",
   text="Every sequence (to the completed depth) of put/insert/update/remove with payload size classes {8 B, 200 B, 300 B, 1/4 page, 1/3 page, 1.5 pages, 3 pages} on four colliding keys from the empty tree, and of runs of 1/7/14 inserts and removes in three key regions plus one insert above EACH of the 120 seed keys from pre-grown 3-level trees (ascending and descending builds, 200 B and 300 B rows, siblings 1 and 2), for BigUInt, Int (negative), Text (prefix-related) and composite keys; after every operation every key ever used is looked up, the tree is scanned forwards and backwards against a BTreeMap, and the page graph dumped from the real pages is audited: key order within pages and across the leaf chain, separator bounds, equal leaf depth, sibling links mirroring key order, no empty non-root page.",
   note="Trusted: the facade's pass-through and data export, the map model and the audit code in the harness. Occupancy thresholds are not asserted. Rows of a quarter page or more are explored from the empty tree on four keys only (larger trees of such rows hit further genuine rebalancing defects recorded in DESIGN.md)."),
 "C11": dict(engine="btree", cat=MC, ref="7/C11",
   technique="explicit-state BFS over operation sequences on two real B+trees sharing one pager, whole-file page-ownership audit computed from raw page dumps after every operation",
   text="Every sequence (to the completed depth) of puts of 8 B..3-page rows, removes, runs of inserts/removes, growth and whole-tree deallocation of a second tree, from the empty file and from a 3-level first tree; after every operation every page id of the file must be reached exactly once (tree node of exactly one tree, link of exactly one overflow chain referenced by exactly one cell, or member of the acyclic free list that agrees with its recorded head and tail), and the file must not grow while previously free pages stay free.",
   note="Decided at the tree/pager level that the property anchors; the SQL-level catalogue walk is not part of this check. One listed finding (interior separators alias the overflow chain of their leaf copy) is applied only to audit failures of exactly that shape."),
 "C13": dict(engine="seq", cat=MC, ref="7/C13",
   technique="explicit-state BFS over operation sequences with VACUUM at every position on the real engine; VACUUM is a no-op in the reference model",
   text="Every sequence (to the completed depth) of committed and rolled-back inserts/updates/deletes, table create/drop, VACUUM (any position, repeated) and reopen, on a plain and on a unique-indexed table; VACUUM changes nothing in the reference model, so every later answer must equal the model's; every history without an open session is additionally followed by VACUUM + fresh read. Plus a bounded-storage run: (3 updates of each of 8 rows; VACUUM)^n must not grow the file after the first cycle.",
   note="Trusted: the reference model; VACUUM with sessions open (documented to abort them) is outside the alphabet; the storage-boundedness run uses fixed-size rows."),
 "C15": dict(engine="seq", cat=MC, ref="7/C15",
   technique="explicit-state BFS over DDL/DML operation sequences on the real engine, step-wise conformance to a transactional-DDL snapshot-isolation model",
   text="Every sequence (to the completed depth) of CREATE TABLE (two shapes of the same name), DROP TABLE, re-CREATE, SET/DROP NOT NULL, CREATE UNIQUE INDEX, ADD/DROP COLUMN and DML on the same and on another table, in autocommit and inside committed or rolled-back sessions, with reopen; objects must be visible by name exactly while they exist for the reading snapshot, other tables undisturbed, and every history is followed by close + reopen + fresh read.",
   note="Trusted: the reference model; ADD COLUMN, DROP COLUMN, DROP TABLE / ALTER / CREATE INDEX inside a transaction are listed known findings and only their first step is executed."),
 "C17": dict(engine="wal", cat=MC, ref="7/C17",
   technique="explicit-state BFS over append/force/reopen/crash/truncate sequences on the real WriteAheadLog (through the verif facade), conformance to a list model",
   text="Every sequence (to the completed depth) of append (size classes relative to the block being filled: header-only, 100 B, 10 KB, exact fit, one alignment unit too many, per-block maximum, maximum+8 which must be rejected), force, clean close+open, crash+open and truncate, from four seed states (empty; block zero 75% full; block zero full plus a full data block, forced; the same unforced); after every force and reopen the log is read back with read-ahead 1, 2, 4 and 16 and must equal the records appended since the last truncation and covered by a force: same order, strictly increasing sequence numbers, identical ids/kinds/payloads; unforced records may be missing after a crash only as a suffix.",
   note="Trusted: the facade's pass-through (Wal::push assigns sequence numbers exactly like Pager::push_to_log) and the list model."),
 "C18": dict(engine="tuple", cat=EX, ref="7/C18",
   technique="exhaustive enumeration of bounded tuple histories x creator-state assignments x trimming horizons on the real tuple code (verif facade), against a list-of-versions model",
   text="Every (schema, initial row, update chain) of a bounded family - 1-2 key columns, 0-3 value columns over {Int, BigInt, Double, Bool, Text} with NULLs, empty and 300-byte text, boundary integers; chains of <= 2 updates (thorough: 3) touching every subset of the value columns with every domain value; with and without a final delete - is built with the real TupleBuilder/add_version_with/delete, and for EVERY assignment of {committed before the reader, started after it, active, aborted, the reader itself} to the creator, each updater and the deleter the snapshot decoder must return exactly the newest version whose creator the reader may see (nothing if the deleter is visible or no version is), with every value and NULL flag intact; encode->decode is the identity for every version; for every trimming horizon valid for that reader, vacuuming must not change what it decodes.",
   note="Trusted: the facade's pass-through and the version-list model. One listed finding (every version carries the row creator's id) is applied as an exact quirk: an execution is attributed to it only if the quirk model reproduces the decoded result exactly."),
 "C19": dict(engine="values", cat=EX, ref="7/C19",
   technique="exhaustive enumeration of all values, ordered pairs and ordered triples of a boundary-value grid against algebraic laws and an exact reference comparison, plus SQL-level ORDER BY/DISTINCT/=/</unique-index checks per column type",
   text="Over a grid of 80 values (NULL, Bools, Int/BigInt/UInt/BigUInt boundaries around 2^24, 2^31, 2^32, 2^53, 2^63, Float/Double with -0.0, subnormals, infinities, NaN, texts incl. empty, prefix-related, non-ASCII at 8-byte-aligned offsets, 300 B and 70 000 B): every value (reflexivity, serialize/deserialize and same-type cast identity, value-preserving numeric casts), EVERY ordered pair (symmetry, == implies equal hashes, ordering antisymmetric and consistent with ==, cross-type numeric comparison equal to exact mathematical comparison, text comparison byte-wise lexicographic) and EVERY ordered triple (transitivity of == and of the order). Per column type a plain and a UNIQUE-indexed table hold the grid values: ORDER BY order, DISTINCT classes, = lookups through scan and through the index tree, < ranges and duplicate rejection must agree with the exact reference.",
   note="Trusted: the exact reference comparison (i128 / exact float decomposition) in the harness. Three listed findings (numeric comparison via f64, NaN not reflexive, -0.0 hash) are applied by value class only."),
 "C20": dict(engine="wire", cat=EX, ref="7/C20",
   technique="exhaustive enumeration of bounded message shapes and of all short / single-byte-mutated / length-corrupted byte strings against the real codec, in isolated worker processes with an address-space cap",
   text="Every Request and Response of a bounded shape (all variants; strings from {empty, ASCII, non-ASCII, 300 B, embedded NUL, 70 000 B}; boundary integers and floats; result sets up to 3x3 with every assignment of a 2-letter cell alphabet) is round-tripped through to_bytes/from_bytes and through the framing over an in-memory pipe, including a message of exactly MAX_MESSAGE_SIZE and one byte more. ALL byte strings of length <= 2 (thorough: <= 3), every strict prefix and every single-byte substitution of every short canonical encoding, and every length/count field set to boundary values are fed to both decoders and to the frame reader: each must return Ok/Err without panic, hang or an allocation beyond the 6 GiB cap; an accepted input must be stable under re-encoding; a strict prefix of a canonical encoding must be rejected.",
   note="Decided at the codec/framing API that the property anchors, not at the server's socket loop. Trusted: worker isolation (rlimit + watchdog). Invalid UTF-8 replaced by the decoder is not counted as accepted garbage."),
}

def cmd(pid, tier): return f"./check {pid} {tier}"
checks = []
for p in props:
    c = CHECKS.get(p["id"])
    if not c: continue
    checks.append({
        "property_id": p["id"],
        "quick_cmd": cmd(p["id"], "quick"),
        "thorough_cmd": cmd(p["id"], "thorough"),
        "evidence_file": f"/verif/evidence/{p['id']}.json",
        "replay_cmd_template": f"./check {p['id']} --replay {{path}}",
        "engine": c["engine"],
        "level_claimed": {"category": c["cat"], "text": c["text"], "design_ref": c["ref"]},
        "level_note": c["note"],
        "technique": c["technique"],
    })
NA_REASON = "check not built yet in this round (work in progress; DESIGN.md section 11 gives the build order) - not a statement that the technique cannot apply"
m = {
 "version": 1,
 "setup_cmd": "./check --setup",
 "hooks": {
   "guard": "cargo feature `verif` of crate axmosdb (crates/axmos-db/Cargo.toml)",
   "enable": "harness/Cargo.toml path-depends on /repo/crates/axmos-db with features=[\"verif\"]; ./check rebuilds it from /repo's working tree on every invocation",
   "baseline_off_cmd": "cd /repo && cargo test --workspace --no-fail-fast --offline",
   "source_commits": hook_commits,
   "add_only": True},
 "engines": [
   {"name": "btree", "path": "harness/src/engines/btree.rs", "serves_properties": ["C10", "C11"],
    "kind_free_text": "explicit-state BFS over tree operation sequences on the real Btree/Pager via the verif facade; ordered-map model, page-graph structure audit and whole-file ownership audit evaluated in the harness from raw page dumps"},
   {"name": "crash", "path": "harness/src/engines/crash.rs", "serves_properties": [k for k,v in CHECKS.items() if v["engine"]=="crash"],
    "kind_free_text": "fault enumeration: the seq engine's histories run under an I/O tap; every prefix of the file-mutation stream (and, for C08, of the recovery's own stream) is rebuilt and reopened"},
   {"name": "sqlenum", "path": "harness/src/engines/sqlenum.rs", "serves_properties": ["C05"],
    "kind_free_text": "flat exhaustive enumeration of a bounded SQL grammar executed on the real engine; reference evaluator in harness/src/sqlmodel.rs"},
   {"name": "tuple", "path": "harness/src/engines/tuple.rs", "serves_properties": ["C18"],
    "kind_free_text": "flat exhaustive enumeration (index -> schema, row, update chain) with inner loops over state assignments and horizons, on the real tuple code via the verif facade"},
   {"name": "values", "path": "harness/src/engines/values.rs", "serves_properties": ["C19"],
    "kind_free_text": "flat exhaustive enumeration over a boundary-value grid (singles, pairs, triples) on the public DataType API plus per-type SQL scripts on the real engine"},
   {"name": "wal", "path": "harness/src/engines/wal.rs", "serves_properties": ["C17"],
    "kind_free_text": "explicit-state BFS over log operation sequences on the real WriteAheadLog via the verif facade, list model as oracle"},
   {"name": "wire", "path": "harness/src/engines/wire.rs", "serves_properties": ["C20"],
    "kind_free_text": "flat exhaustive enumeration (index -> message / byte string) against the public tcp codec, chunked over worker subprocesses; a process death or hang is re-run one input at a time to name the input"},
   {"name": "seq", "path": "harness/src/engines/seq.rs", "serves_properties": [k for k,v in CHECKS.items() if v["engine"]=="seq"],
    "kind_free_text": "explicit-state BFS over statement-level operation sequences of the real engine through its public API, in 16 worker subprocesses, against a reference MVCC/SI model"},
 ],
 "checks": checks,
 "not_applicable": [{"property_id": p["id"], "reason": NA_REASON} for p in props if p["id"] not in CHECKS],
 "notes": "All checks: ./check <Cxx> <quick|thorough>; exit 0 = held (KNOWN-FINDING lines possible), 1 = VIOLATION line, >=2 = machinery failure. known_findings.txt lists recorded defects; DESIGN.md explains the approach.",
}
json.dump(m, open('/verif/MANIFEST.json','w'), indent=1)
print("checks:", [c["property_id"] for c in checks])
