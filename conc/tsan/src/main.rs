//! Free-running pass: every scenario of ../harness/src/scen.rs is run ROUNDS times with real, unscheduled
//! threads under ThreadSanitizer. This SAMPLES schedules (it is not the deciding step of C14); its purpose is
//! to catch accesses that no lock orders, which the cooperative scheduler cannot see.

#[path = "../../../harness/src/sqldrv.rs"]
#[allow(dead_code)]
mod sqldrv;
#[path = "../../harness/src/scen.rs"]
#[allow(dead_code)]
mod scen;

use scen::*;
use sqldrv::*;
use std::sync::{Arc, Barrier};

fn main() {
    let rounds: usize = std::env::args().nth(1).and_then(|s| s.parse().ok()).unwrap_or(20);
    install_panic_counter();
    let mut summary = vec![];
    for sc in scenarios() {
        let allowed = match serial_outcomes(&sc) {
            Ok(a) => a,
            Err(e) => {
                eprintln!("serial reference failed for {}: {e}", sc.name);
                continue;
            }
        };
        let mut outside = 0usize;
        for _ in 0..rounds {
            let mut sc2 = sc.clone();
            sc2.cfg.pool = if sc.name.starts_with("pool1-") { 1 } else { 4 };
            let Ok((db, dir)) = fresh_db(&sc2) else { continue };
            let barrier = Arc::new(Barrier::new(sc.clients.len()));
            let mut hs = vec![];
            for ops in &sc.clients {
                let (db, ops, b) = (db.clone(), ops.clone(), barrier.clone());
                hs.push(std::thread::spawn(move || {
                    b.wait();
                    run_ops(&db, &ops).0
                }));
            }
            let results: Vec<Vec<String>> = hs.into_iter().map(|h| h.join().unwrap_or_else(|_| vec!["PANIC".into()])).collect();
            let a = audit_twice(db, &dir, &sc2);
            let _ = std::fs::remove_dir_all(&dir);
            if !allowed.contains_key(&outcome_string(&results, &a)) {
                outside += 1;
            }
        }
        summary.push(serde_json::json!({"scenario": sc.name, "rounds": rounds, "outcomes_outside_serial_set": outside}));
    }
    println!("{}", serde_json::to_string(&summary).unwrap());
    cleanup_scratch();
}
