//! Cooperative scheduler for controlled client threads.
//!
//! Exactly one registered ("controlled") thread runs at a time. Every lock acquisition of a
//! controlled thread is a scheduling point: the thread publishes what it is about to acquire and the
//! scheduler picks, among the threads whose pending acquisition can succeed right now, the thread
//! that runs next. The pick follows a given prefix of choices and after it the default policy
//! "keep running the current thread if it can run, else the lowest thread id". A point is recorded
//! only where at least two threads can run, so a schedule is the list of picks at those points.
//!
//! No thread can run => deadlock; more than `horizon` points => livelock; both are reported through
//! the fatal handler (which normally records the finding and exits the worker process - stuck
//! threads cannot be unwound safely).

use std::cell::Cell;
use std::sync::atomic::{AtomicBool, AtomicUsize, Ordering::SeqCst};
use std::sync::{Condvar, Mutex};

#[derive(Debug, Clone, Copy, PartialEq, Eq)]
pub enum Kind {
    /// plain shared acquisition: blocks behind a waiting writer (parking_lot's fairness rule)
    Shared,
    /// recursive shared acquisition (`read_recursive`): only blocks while a writer HOLDS the lock
    SharedRecursive,
    Exclusive,
}

#[derive(Debug, Clone, Copy)]
struct Pending {
    addr: usize,
    kind: Kind,
}

fn can(p: &Pending) -> bool {
    // all other controlled threads are parked, so this read is stable
    let st = unsafe { &*(p.addr as *const AtomicUsize) }.load(SeqCst);
    match p.kind {
        Kind::Shared | Kind::SharedRecursive => st & 1 == 0,
        Kind::Exclusive => st == 0,
    }
}

#[derive(Debug, Clone)]
pub struct Point {
    /// threads that could run at this point (ascending ids)
    pub enabled: Vec<u8>,
    pub chosen: u8,
    /// the thread that reached the point (None when the previous thread finished)
    pub current: Option<u8>,
    pub current_enabled: bool,
    /// preemptions performed strictly before this point
    pub preemptions_before: u32,
}

#[derive(Debug, Clone, Default)]
pub struct Trace {
    pub points: Vec<Point>,
    pub steps: u64,
    pub preemptions: u32,
    pub lock_acquisitions: u64,
    pub blocked_switches: u64,
}

struct Slot {
    finished: bool,
    started: bool,
    pending: Option<Pending>,
}

struct Global {
    threads: Vec<Slot>,
    current: Option<usize>,
    done: bool,
    prefix: Vec<u8>,
    trace: Trace,
    horizon: u64,
}

static ACTIVE: AtomicBool = AtomicBool::new(false);
static G: Mutex<Option<Global>> = Mutex::new(None);
static CV: Condvar = Condvar::new();
static FATAL: Mutex<Option<Box<dyn Fn(&str, &str, &Trace) + Send + Sync>>> = Mutex::new(None);

thread_local! {
    static ME: Cell<Option<usize>> = const { Cell::new(None) };
}

pub fn controlled() -> bool {
    ACTIVE.load(SeqCst) && ME.with(|m| m.get()).is_some()
}

/// `handler(kind, description, trace)`; kinds: "deadlock", "livelock", "divergence". It should not return.
pub fn set_fatal_handler(h: Box<dyn Fn(&str, &str, &Trace) + Send + Sync>) {
    *FATAL.lock().unwrap() = Some(h);
}

fn fatal(kind: &str, desc: String, trace: &Trace) -> ! {
    if let Some(h) = FATAL.lock().unwrap().as_ref() {
        h(kind, &desc, trace);
    }
    eprintln!("sched fatal {kind}: {desc}");
    std::process::exit(97);
}

fn lockg() -> std::sync::MutexGuard<'static, Option<Global>> {
    G.lock().unwrap_or_else(|e| e.into_inner())
}

/// Start an execution. `prefix` = picks for the first recorded points.
pub fn begin(prefix: Vec<u8>, horizon: u64) {
    let mut g = lockg();
    *g = Some(Global { threads: vec![], current: None, done: false, prefix, trace: Trace::default(), horizon });
    ACTIVE.store(true, SeqCst);
}

fn choose(g: &mut Global, from: Option<usize>) -> Option<usize> {
    // parking_lot's RwLock prefers writers: once a writer WAITS for a lock (it found the lock held and parked), new
    // (non-recursive) readers of that lock block behind it. A pending exclusive request of ANOTHER thread that cannot
    // be granted right now therefore disables a plain shared one. A pending exclusive request on a FREE lock is not a
    // waiting writer - that thread simply has not taken the lock yet - and disables nothing (treating it as waiting
    // would hide every interleaving in which a reader slips in between a thread's shared and exclusive acquisitions).
    let writers_waiting: Vec<(usize, usize)> = g.threads.iter().enumerate().filter(|(_, s)| s.started && !s.finished).filter_map(|(i, s)| s.pending.filter(|p| p.kind == Kind::Exclusive && !can(p)).map(|p| (i, p.addr))).collect();
    let enabled: Vec<usize> = g
        .threads
        .iter()
        .enumerate()
        .filter(|(i, s)| {
            s.started
                && !s.finished
                && s.pending.as_ref().map_or(true, |p| can(p) && !(p.kind == Kind::Shared && writers_waiting.iter().any(|(j, a)| j != i && *a == p.addr)))
        })
        .map(|(i, _)| i)
        .collect();
    if enabled.is_empty() {
        if g.threads.iter().all(|s| s.finished) {
            return None;
        }
        let desc = g
            .threads
            .iter()
            .enumerate()
            .map(|(i, s)| if s.finished { format!("T{i} finished") } else { format!("T{i} waits for {:?} access to lock @{:#x}", s.pending.map(|p| p.kind), s.pending.map(|p| p.addr).unwrap_or(0)) })
            .collect::<Vec<_>>()
            .join("; ");
        let t = g.trace.clone();
        fatal("deadlock", desc, &t);
    }
    let from_enabled = from.map_or(false, |f| enabled.contains(&f));
    if from.is_some() && !from_enabled {
        g.trace.blocked_switches += 1;
    }
    if enabled.len() == 1 {
        return Some(enabled[0]);
    }
    let depth = g.trace.points.len();
    let chosen = if depth < g.prefix.len() {
        let c = g.prefix[depth] as usize;
        if !enabled.contains(&c) {
            let t = g.trace.clone();
            fatal("divergence", format!("replayed pick T{c} at point {depth} is not runnable (runnable: {enabled:?}): the execution is not deterministic"), &t);
        }
        c
    } else if from_enabled {
        from.unwrap()
    } else {
        enabled[0]
    };
    let before = g.trace.preemptions;
    if from_enabled && Some(chosen) != from {
        g.trace.preemptions += 1;
    }
    g.trace.points.push(Point { enabled: enabled.iter().map(|x| *x as u8).collect(), chosen: chosen as u8, current: from.map(|x| x as u8), current_enabled: from_enabled, preemptions_before: before });
    Some(chosen)
}

/// Called by a controlled thread right before it acquires a lock.
pub fn point(addr: usize, kind: Kind) {
    let me = ME.with(|m| m.get()).expect("point() on an uncontrolled thread");
    let mut guard = lockg();
    let g = guard.as_mut().expect("no execution");
    g.threads[me].pending = Some(Pending { addr, kind });
    g.trace.steps += 1;
    g.trace.lock_acquisitions += 1;
    if g.trace.steps > g.horizon {
        let t = g.trace.clone();
        fatal("livelock", format!("more than {} scheduling points in one execution", g.horizon), &t);
    }
    let next = choose(g, Some(me)).expect("current thread is unfinished");
    g.current = Some(next);
    if next != me {
        CV.notify_all();
        loop {
            guard = CV.wait(guard).unwrap_or_else(|e| e.into_inner());
            if guard.as_ref().map_or(false, |g| g.current == Some(me)) {
                break;
            }
        }
    }
    guard.as_mut().unwrap().threads[me].pending = None;
}

/// Spawn a controlled thread. It starts parked and runs only when the scheduler picks it.
pub fn spawn<R: Send + 'static>(f: impl FnOnce() -> R + Send + 'static) -> std::thread::JoinHandle<std::thread::Result<R>> {
    let tid = {
        let mut guard = lockg();
        let g = guard.as_mut().expect("no execution");
        g.threads.push(Slot { finished: false, started: true, pending: None });
        g.threads.len() - 1
    };
    std::thread::Builder::new()
        .name(format!("client-{tid}"))
        .stack_size(16 << 20)
        .spawn(move || {
            ME.with(|m| m.set(Some(tid)));
            {
                let mut guard = lockg();
                while guard.as_ref().map_or(true, |g| g.current != Some(tid)) {
                    guard = CV.wait(guard).unwrap_or_else(|e| e.into_inner());
                }
            }
            let r = std::panic::catch_unwind(std::panic::AssertUnwindSafe(f));
            // finished: hand the token on
            let mut guard = lockg();
            let g = guard.as_mut().unwrap();
            g.threads[tid].finished = true;
            g.threads[tid].pending = None;
            match choose(g, None) {
                Some(n) => g.current = Some(n),
                None => {
                    g.current = None;
                    g.done = true;
                }
            }
            CV.notify_all();
            drop(guard);
            ME.with(|m| m.set(None));
            r
        })
        .expect("spawn")
}

/// Give the token to the first thread and wait until every controlled thread has finished.
/// Returns the trace. `wall_limit`: a thread stuck outside the scheduler's view is a fatal "stuck".
pub fn run_all(wall_limit: std::time::Duration) -> Trace {
    let mut guard = lockg();
    {
        let g = guard.as_mut().expect("no execution");
        match choose(g, None) {
            Some(n) => g.current = Some(n),
            None => g.done = true,
        }
    }
    CV.notify_all();
    let t0 = std::time::Instant::now();
    loop {
        if guard.as_ref().unwrap().done {
            break;
        }
        let (g2, _) = CV.wait_timeout(guard, std::time::Duration::from_millis(200)).unwrap_or_else(|e| e.into_inner());
        guard = g2;
        if t0.elapsed() > wall_limit && !guard.as_ref().unwrap().done {
            let t = guard.as_ref().unwrap().trace.clone();
            let cur = guard.as_ref().unwrap().current;
            fatal("stuck", format!("no scheduling point reached for {:?}; running thread: {:?}", wall_limit, cur), &t);
        }
    }
    ACTIVE.store(false, SeqCst);
    let g = guard.take().unwrap();
    g.trace
}
