//! Scheduler-aware stand-in for `parking_lot` (see Cargo.toml). Threads that are not registered
//! with the scheduler (pool workers, the harness main thread, everything while no execution is
//! active) get ordinary blocking behaviour through a spin/yield/sleep loop.

pub mod sched;

use sched::Kind;
use std::sync::atomic::{AtomicUsize, Ordering::SeqCst};
use std::time::{Duration, Instant};

pub use lock_api;

const WRITER: usize = 1;
const READER: usize = 2;

fn backoff(n: &mut u32) {
    *n += 1;
    if *n < 50 {
        std::thread::yield_now();
    } else {
        std::thread::sleep(Duration::from_micros(50));
    }
}

// ------------------------------------------------------------------------------------ RawRwLock

pub struct RawRwLock {
    state: AtomicUsize,
}

impl RawRwLock {
    fn try_shared(&self) -> bool {
        let mut cur = self.state.load(SeqCst);
        loop {
            if cur & WRITER != 0 {
                return false;
            }
            match self.state.compare_exchange(cur, cur + READER, SeqCst, SeqCst) {
                Ok(_) => return true,
                Err(c) => cur = c,
            }
        }
    }
    fn try_exclusive(&self) -> bool {
        self.state.compare_exchange(0, WRITER, SeqCst, SeqCst).is_ok()
    }
}

unsafe impl lock_api::RawRwLock for RawRwLock {
    const INIT: RawRwLock = RawRwLock { state: AtomicUsize::new(0) };
    type GuardMarker = lock_api::GuardSend;

    fn lock_shared(&self) {
        if sched::controlled() {
            sched::point(&self.state as *const AtomicUsize as usize, Kind::Shared);
            assert!(self.try_shared(), "scheduler let a reader run on a write-locked lock");
            return;
        }
        let mut n = 0;
        while !self.try_shared() {
            backoff(&mut n);
        }
    }
    fn try_lock_shared(&self) -> bool {
        self.try_shared()
    }
    unsafe fn unlock_shared(&self) {
        self.state.fetch_sub(READER, SeqCst);
    }
    fn lock_exclusive(&self) {
        if sched::controlled() {
            sched::point(&self.state as *const AtomicUsize as usize, Kind::Exclusive);
            assert!(self.try_exclusive(), "scheduler let a writer run on a held lock");
            return;
        }
        let mut n = 0;
        while !self.try_exclusive() {
            backoff(&mut n);
        }
    }
    fn try_lock_exclusive(&self) -> bool {
        self.try_exclusive()
    }
    unsafe fn unlock_exclusive(&self) {
        self.state.fetch_and(!WRITER, SeqCst);
    }
    fn is_locked(&self) -> bool {
        self.state.load(SeqCst) != 0
    }
    fn is_locked_exclusive(&self) -> bool {
        self.state.load(SeqCst) & WRITER != 0
    }
}

unsafe impl lock_api::RawRwLockRecursive for RawRwLock {
    fn lock_shared_recursive(&self) {
        if sched::controlled() {
            sched::point(&self.state as *const AtomicUsize as usize, Kind::SharedRecursive);
            assert!(self.try_shared(), "scheduler let a recursive reader run on a write-locked lock");
            return;
        }
        let mut n = 0;
        while !self.try_shared() {
            backoff(&mut n);
        }
    }
    fn try_lock_shared_recursive(&self) -> bool {
        self.try_shared()
    }
}

unsafe impl lock_api::RawRwLockDowngrade for RawRwLock {
    unsafe fn downgrade(&self) {
        self.state.store(READER, SeqCst);
    }
}

// ------------------------------------------------------------------------------------ RawMutex

pub struct RawMutex {
    state: AtomicUsize,
}

unsafe impl lock_api::RawMutex for RawMutex {
    const INIT: RawMutex = RawMutex { state: AtomicUsize::new(0) };
    type GuardMarker = lock_api::GuardSend;

    fn lock(&self) {
        if sched::controlled() {
            sched::point(&self.state as *const AtomicUsize as usize, Kind::Exclusive);
            assert!(self.try_lock(), "scheduler let a thread run on a held mutex");
            return;
        }
        let mut n = 0;
        while !self.try_lock() {
            backoff(&mut n);
        }
    }
    fn try_lock(&self) -> bool {
        self.state.compare_exchange(0, WRITER, SeqCst, SeqCst).is_ok()
    }
    unsafe fn unlock(&self) {
        self.state.store(0, SeqCst);
    }
    fn is_locked(&self) -> bool {
        self.state.load(SeqCst) != 0
    }
}

pub type Mutex<T> = lock_api::Mutex<RawMutex, T>;
pub type MutexGuard<'a, T> = lock_api::MutexGuard<'a, RawMutex, T>;
pub type MappedMutexGuard<'a, T> = lock_api::MappedMutexGuard<'a, RawMutex, T>;
pub type RwLock<T> = lock_api::RwLock<RawRwLock, T>;
pub type RwLockReadGuard<'a, T> = lock_api::RwLockReadGuard<'a, RawRwLock, T>;
pub type RwLockWriteGuard<'a, T> = lock_api::RwLockWriteGuard<'a, RawRwLock, T>;
pub type MappedRwLockReadGuard<'a, T> = lock_api::MappedRwLockReadGuard<'a, RawRwLock, T>;
pub type MappedRwLockWriteGuard<'a, T> = lock_api::MappedRwLockWriteGuard<'a, RawRwLock, T>;
#[cfg(feature = "arc_lock")]
pub type ArcRwLockReadGuard<R, T> = lock_api::ArcRwLockReadGuard<R, T>;
#[cfg(feature = "arc_lock")]
pub type ArcRwLockWriteGuard<R, T> = lock_api::ArcRwLockWriteGuard<R, T>;
#[cfg(feature = "arc_lock")]
pub type ArcMutexGuard<R, T> = lock_api::ArcMutexGuard<R, T>;

pub const fn const_mutex<T>(val: T) -> Mutex<T> {
    Mutex::const_new(<RawMutex as lock_api::RawMutex>::INIT, val)
}
pub const fn const_rwlock<T>(val: T) -> RwLock<T> {
    RwLock::const_new(<RawRwLock as lock_api::RawRwLock>::INIT, val)
}

// ------------------------------------------------------------------------------------ Condvar

#[derive(Debug, Clone, Copy, PartialEq, Eq)]
pub struct WaitTimeoutResult(bool);
impl WaitTimeoutResult {
    pub fn timed_out(&self) -> bool {
        self.0
    }
}

/// Condition variable for `MutexGuard`s of this crate. Only uncontrolled threads (the worker pool)
/// wait on it; implemented with a generation counter under a std mutex, so no wake-up is lost.
pub struct Condvar {
    generation: std::sync::Mutex<u64>,
    cv: std::sync::Condvar,
}

impl Default for Condvar {
    fn default() -> Self {
        Self::new()
    }
}

impl Condvar {
    pub const fn new() -> Condvar {
        Condvar { generation: std::sync::Mutex::new(0), cv: std::sync::Condvar::new() }
    }
    pub fn notify_one(&self) -> bool {
        self.notify_all() > 0
    }
    pub fn notify_all(&self) -> usize {
        let mut g = self.generation.lock().unwrap_or_else(|e| e.into_inner());
        *g += 1;
        self.cv.notify_all();
        1
    }
    pub fn wait<T>(&self, guard: &mut MutexGuard<'_, T>) {
        let _ = self.wait_deadline(guard, None);
    }
    pub fn wait_for<T>(&self, guard: &mut MutexGuard<'_, T>, timeout: Duration) -> WaitTimeoutResult {
        self.wait_deadline(guard, Some(Instant::now() + timeout))
    }
    pub fn wait_until<T>(&self, guard: &mut MutexGuard<'_, T>, deadline: Instant) -> WaitTimeoutResult {
        self.wait_deadline(guard, Some(deadline))
    }
    fn wait_deadline<T>(&self, guard: &mut MutexGuard<'_, T>, deadline: Option<Instant>) -> WaitTimeoutResult {
        assert!(!sched::controlled(), "a scheduled client thread waits on a condition variable: not modelled");
        let g = self.generation.lock().unwrap_or_else(|e| e.into_inner());
        let seen = *g;
        let mut timed_out = false;
        MutexGuard::unlocked(guard, || {
            let mut g = g;
            loop {
                if *g != seen {
                    break;
                }
                match deadline {
                    None => g = self.cv.wait(g).unwrap_or_else(|e| e.into_inner()),
                    Some(d) => {
                        let now = Instant::now();
                        if now >= d {
                            timed_out = true;
                            break;
                        }
                        let (g2, _) = self.cv.wait_timeout(g, d - now).unwrap_or_else(|e| e.into_inner());
                        g = g2;
                    }
                }
            }
        });
        WaitTimeoutResult(timed_out)
    }
}
