//! C14: statements issued from several client threads. Real OS threads run the real engine; every
//! lock acquisition (pager lock, page latches, coordinator tables, ...) is a scheduling point of a
//! cooperative scheduler (../parking_lot/src/sched.rs). For each scenario ALL schedules with at most
//! B preemptions are enumerated (iteratively B = 0, 1, 2, ...); each execution is judged against the
//! set of outcomes that the engine itself produces when the same transactions run one after the
//! other in some order.

#[path = "../../../harness/src/evidence.rs"]
mod evidence;
#[path = "../../../harness/src/findings.rs"]
mod findings;
#[path = "../../../harness/src/sqldrv.rs"]
#[allow(dead_code)]
mod sqldrv;

use parking_lot::sched;
use serde::{Deserialize, Serialize};
use serde_json::{json, Value};
use sqldrv::*;
use std::collections::{BTreeMap, BTreeSet};
use std::io::{BufRead, Write};
use std::sync::Arc;
use std::time::{Duration, Instant};

mod scen;
use scen::*;

// ------------------------------------------------------------------------------------ one controlled execution

#[derive(Debug, Clone, Serialize, Deserialize, Default)]
struct ExecResult {
    scenario: usize,
    prefix: Vec<u8>,
    picks: Vec<u8>,
    points: usize,
    steps: u64,
    preemptions: u32,
    blocked_switches: u64,
    outcome: String,
    ok: bool,
    /// "" | outcome-not-serial | panic | internal-error | deadlock | livelock | stuck | divergence | process-death
    failure: String,
    detail: String,
    children: Vec<Vec<u8>>,
}

fn internal_class(s: &str) -> bool {
    s.contains("ERR<Internal>") || s.contains("ERR<WorkerDied>") || s.contains("ERR<Io>") || s.contains("ERR<NotFound>") || s.contains("ERR<OutOfCache>")
}

thread_local! {
    static REDUCED: std::cell::RefCell<BTreeMap<(String, u32), BTreeMap<String, Vec<usize>>>> = std::cell::RefCell::new(BTreeMap::new());
}

/// True if every failing client failed ONLY with an explicit out-of-memory error (cache below 24 pages) or a
/// conflict error, has a single operation, and the remaining clients' results and the final contents are
/// what some serial order of the remaining transactions produces.
fn resource_abort_explains(sc: &Scenario, results: &[Vec<String>], final_audit: &str) -> bool {
    let mut mask = 0u32;
    for (i, r) in results.iter().enumerate() {
        let oom = r.len() == 1 && r[0] == "ERR<OutOfCache>" && sc.cfg.cache < 24;
        let conflict = r.len() == 1 && r[0] == "ERR<Conflict>";
        if oom || conflict {
            mask |= 1 << i;
        } else if r.iter().any(|x| x.starts_with("ERR<OutOfCache>") || x.starts_with("ERR<Conflict>")) {
            return false;
        }
    }
    if mask == 0 {
        return false;
    }
    let mut reduced = sc.clone();
    for i in 0..reduced.clients.len() {
        if mask & (1 << i) != 0 {
            reduced.clients[i] = vec![];
        }
    }
    let observed: Vec<Vec<String>> = results.iter().enumerate().map(|(i, r)| if mask & (1 << i) != 0 { vec![] } else { r.clone() }).collect();
    let key = (sc.name.to_string(), mask);
    REDUCED.with(|c| {
        let mut c = c.borrow_mut();
        if !c.contains_key(&key) {
            match serial_outcomes(&reduced) {
                Ok(a) => {
                    c.insert(key.clone(), a);
                }
                Err(_) => return false,
            }
        }
        c[&key].contains_key(&outcome_string(&observed, final_audit))
    })
}

fn run_controlled(si: usize, sc: &Scenario, prefix: &[u8], bound: u32, allowed: &BTreeMap<String, Vec<usize>>) -> ExecResult {
    // scenarios named pool1-*: the inline execution holds one process-wide lock, the stand-in for a single pool worker
    axmosdb::verif::set_inline_single_worker(sc.name.starts_with("pool1-"));
    let mut r = ExecResult { scenario: si, prefix: prefix.to_vec(), ..Default::default() };
    let (db, dir) = match fresh_db(sc) {
        Ok(x) => x,
        Err(e) => {
            r.failure = "machinery".into();
            r.detail = e;
            return r;
        }
    };
    let before = panics();
    sched::begin(prefix.to_vec(), 200_000);
    let mut handles = vec![];
    for ops in &sc.clients {
        let db = db.clone();
        let ops = ops.clone();
        handles.push(sched::spawn(move || run_ops(&db, &ops)));
    }
    let trace = sched::run_all(Duration::from_secs(60));
    let mut results: Vec<Vec<String>> = vec![];
    let mut errtexts: Vec<String> = vec![];
    let mut panicked = false;
    for h in handles {
        match h.join() {
            Ok(Ok((res, errs))) => {
                results.push(res);
                errtexts.extend(errs);
            }
            _ => {
                panicked = true;
                results.push(vec![format!("PANIC: {}", last_panic())]);
            }
        }
    }
    let a = audit_twice(db, &dir, sc);
    let _ = std::fs::remove_dir_all(&dir);
    r.picks = trace.points.iter().map(|p| p.chosen).collect();
    r.points = trace.points.len();
    r.steps = trace.steps;
    r.preemptions = trace.preemptions;
    r.blocked_switches = trace.blocked_switches;
    r.outcome = outcome_string(&results, &a);
    if panicked || panics() != before {
        r.failure = "panic".into();
        r.detail = format!("a client thread panicked inside the engine: {}", last_panic());
    } else if allowed.contains_key(&r.outcome) {
        r.ok = true;
    } else if resource_abort_explains(sc, &results, &a) {
        // a client whose only statement failed with an explicit out-of-memory error of a cache below the
        // documented range (or a write-write conflict) counts as not having run: the rest must be serial
        r.ok = true;
        r.outcome = format!("{} [accepted: explicit resource error, rest serial]", r.outcome);
    } else if internal_class(&r.outcome) {
        r.failure = "internal-error".into();
        r.detail = format!("a statement failed for internal reasons: {}", errtexts.join(" / ").chars().take(400).collect::<String>());
    } else {
        r.failure = "outcome-not-serial".into();
        r.detail = "results and final contents match no serial order of the transactions".into();
    }
    // children within the preemption bound
    for i in prefix.len()..trace.points.len() {
        let p = &trace.points[i];
        for alt in &p.enabled {
            if *alt == p.chosen {
                continue;
            }
            let cost = p.preemptions_before + if p.current_enabled && Some(*alt) != p.current { 1 } else { 0 };
            if cost <= bound {
                let mut c: Vec<u8> = r.picks[..i].to_vec();
                c.push(*alt);
                r.children.push(c);
            }
        }
    }
    r
}

// ------------------------------------------------------------------------------------ worker

fn worker_main() {
    install_panic_counter();
    axmosdb::verif::set_inline_tasks(true);
    let scs = scenarios();
    let current: Arc<std::sync::Mutex<(usize, Vec<u8>)>> = Arc::new(std::sync::Mutex::new((0, vec![])));
    {
        let current = current.clone();
        sched::set_fatal_handler(Box::new(move |kind, desc, trace| {
            let (si, prefix) = current.lock().unwrap().clone();
            let r = ExecResult {
                scenario: si,
                prefix,
                picks: trace.points.iter().map(|p| p.chosen).collect(),
                points: trace.points.len(),
                steps: trace.steps,
                preemptions: trace.preemptions,
                failure: kind.to_string(),
                detail: desc.to_string(),
                ..Default::default()
            };
            let mut out = std::io::stdout().lock();
            let _ = writeln!(out, "{}", serde_json::to_string(&r).unwrap());
            let _ = out.flush();
            cleanup_scratch();
            std::process::exit(0);
        }));
    }
    let mut allowed: BTreeMap<usize, BTreeMap<String, Vec<usize>>> = BTreeMap::new();
    let stdin = std::io::stdin();
    for line in stdin.lock().lines() {
        let Ok(line) = line else { break };
        if line.trim().is_empty() {
            continue;
        }
        let job: Value = serde_json::from_str(&line).expect("job");
        let si = job["scenario"].as_u64().unwrap() as usize;
        let prefix: Vec<u8> = serde_json::from_value(job["prefix"].clone()).unwrap();
        let bound = job["bound"].as_u64().unwrap() as u32;
        *current.lock().unwrap() = (si, prefix.clone());
        if !allowed.contains_key(&si) {
            match serial_outcomes(&scs[si]) {
                Ok(a) => {
                    allowed.insert(si, a);
                }
                Err(e) => {
                    let r = ExecResult { scenario: si, prefix: prefix.clone(), failure: "machinery".into(), detail: format!("serial reference failed: {e}"), ..Default::default() };
                    println!("{}", serde_json::to_string(&r).unwrap());
                    continue;
                }
            }
        }
        let r = run_controlled(si, &scs[si], &prefix, bound, &allowed[&si]);
        let mut out = std::io::stdout().lock();
        writeln!(out, "{}", serde_json::to_string(&r).unwrap()).unwrap();
        out.flush().unwrap();
    }
    cleanup_scratch();
}

// ------------------------------------------------------------------------------------ coordinator

struct Shared {
    queue: Vec<(usize, Vec<u8>, u32)>,
    outstanding: usize,
    results: Vec<ExecResult>,
    stop: bool,
}

/// Explore one scenario at one bound with `jobs` worker processes. Returns (results, complete?).
fn explore(si: usize, bound: u32, max_exec: usize, deadline: Instant, jobs: usize) -> (Vec<ExecResult>, bool) {
    let shared = Arc::new((std::sync::Mutex::new(Shared { queue: vec![(si, vec![], bound)], outstanding: 0, results: vec![], stop: false }), std::sync::Condvar::new()));
    let exe = std::env::current_exe().unwrap();
    let mut ths = vec![];
    for _ in 0..jobs {
        let shared = shared.clone();
        let exe = exe.clone();
        ths.push(std::thread::spawn(move || {
            let spawn = || {
                let mut ch = std::process::Command::new(&exe).arg("--worker").stdin(std::process::Stdio::piped()).stdout(std::process::Stdio::piped()).stderr(std::process::Stdio::null()).spawn().expect("spawn worker");
                let si = ch.stdin.take().unwrap();
                let so = std::io::BufReader::new(ch.stdout.take().unwrap());
                (ch, si, so)
            };
            let (mut ch, mut cin, mut cout) = spawn();
            loop {
                let job = {
                    let (m, cv) = &*shared;
                    let mut g = m.lock().unwrap();
                    loop {
                        if g.stop || (g.queue.is_empty() && g.outstanding == 0) {
                            cv.notify_all();
                            break None;
                        }
                        if let Some(j) = g.queue.pop() {
                            g.outstanding += 1;
                            break Some(j);
                        }
                        g = cv.wait(g).unwrap();
                    }
                };
                let Some((si, prefix, bound)) = job else { break };
                let line = json!({"scenario": si, "prefix": prefix, "bound": bound}).to_string();
                let mut res: Option<ExecResult> = None;
                if writeln!(cin, "{line}").is_ok() && cin.flush().is_ok() {
                    let mut buf = String::new();
                    if let Ok(n) = cout.read_line(&mut buf) {
                        if n > 0 {
                            res = serde_json::from_str(&buf).ok();
                        }
                    }
                }
                let fatal = res.as_ref().map_or(true, |r| matches!(r.failure.as_str(), "deadlock" | "livelock" | "stuck" | "divergence"));
                let r = res.unwrap_or_else(|| ExecResult { scenario: si, prefix: prefix.clone(), failure: "process-death".into(), detail: "the worker process died while running this schedule".into(), ..Default::default() });
                if fatal {
                    let _ = ch.kill();
                    let _ = ch.wait();
                    let x = spawn();
                    ch = x.0;
                    cin = x.1;
                    cout = x.2;
                }
                let (m, cv) = &*shared;
                let mut g = m.lock().unwrap();
                g.outstanding -= 1;
                for c in &r.children {
                    g.queue.push((si, c.clone(), bound));
                }
                g.results.push(r);
                if g.results.len() >= max_exec || Instant::now() > deadline {
                    g.stop = true;
                }
                cv.notify_all();
            }
            drop(cin);
            let _ = ch.wait();
        }));
    }
    for t in ths {
        let _ = t.join();
    }
    let (m, _) = &*shared;
    let g = m.lock().unwrap();
    let complete = !g.stop || (g.queue.is_empty() && g.outstanding == 0);
    (g.results.clone(), complete && g.queue.is_empty())
}

fn write_replay(v: &Value) -> String {
    let root = findings::verif_root();
    let dir = root.join("replays");
    let _ = std::fs::create_dir_all(&dir);
    let s = serde_json::to_string_pretty(v).unwrap();
    use std::hash::{Hash, Hasher};
    let mut h = std::collections::hash_map::DefaultHasher::new();
    s.hash(&mut h);
    let p = dir.join(format!("C14-{:012x}.json", h.finish() & 0xffff_ffff_ffff));
    let _ = std::fs::write(&p, s);
    p.to_string_lossy().into_owned()
}

/// Listed findings apply only to failures of exactly the recorded shape (scenario, failure kind, observed outcome).
fn finding_for(listed: &BTreeSet<String>, sc: &str, r: &ExecResult) -> Option<String> {
    let id = match (sc, r.failure.as_str()) {
        // both deleters report one deleted row (no write-write conflict detection, see C04)
        ("delete-same-row", "outcome-not-serial") if r.outcome.starts_with("T0: count=1 | T1: count=1 || final: a=rows[(2,20)]") => "KC-no-ww-conflict-double-delete",
        // lost update: both increments report one row, the value rose by one only
        ("increment-same-row", "outcome-not-serial") if r.outcome.starts_with("T0: count=1 | T1: count=1 || final: a=rows[(1,11) (2,20)]") => "KC-no-ww-conflict-lost-update",
        // DROP TABLE frees the table's pages at statement time; a reader that resolved the name before fails on the freed pages
        ("drop-vs-select", "internal-error") if r.outcome.starts_with("T0: ddl-ok | T1: ERR<Internal>") && (r.detail.contains("Expected btreepage frame") || r.detail.contains("failed to fill whole buffer")) => "KC-drop-frees-pages-under-reader",
        // an insert that runs out of cache frames in the middle of a leaf split (two clients pinning frames of a
        // 12-page cache) fails with the explicit error but leaves its table without the rows of the split-off half
        ("eviction-overflow-inserters", "internal-error") if r.outcome.contains("ERR<OutOfCache>") && r.detail.contains("Buffer pool got out of memory") => "KC-oom-mid-split-loses-rows",
        _ => return None,
    };
    if listed.contains(id) { Some(id.to_string()) } else { None }
}

fn check(tier: &str) -> i32 {
    let quick = tier == "quick";
    let scs = scenarios();
    let fnd = findings::Findings::load();
    let listed: BTreeSet<String> = fnd.ids_for("C14");
    let texts = fnd.texts_for("C14");
    let jobs: usize = std::env::var("VERIF_JOBS").ok().and_then(|s| s.parse().ok()).unwrap_or(16);
    let wall = std::env::var("VERIF_WALL_CAP_S").ok().and_then(|s| s.parse().ok()).unwrap_or(if quick { 100u64 } else { 3000 });
    let deadline = Instant::now() + Duration::from_secs(wall);
    let max_bound: u32 = if quick { 1 } else { 3 };
    let per_pass_cap = if quick { 4_000 } else { 400_000 };
    let mut ev = evidence::Evidence::new("C14", tier, "model_checking");
    let mut per = vec![];
    let mut total_exec = 0usize;
    let mut total_points = 0u64;
    let mut violations: Vec<(String, ExecResult)> = vec![];
    let mut known: BTreeMap<String, (usize, String, ExecResult)> = BTreeMap::new();
    let mut outcomes_all = 0usize;
    let mut machinery = vec![];
    let mut samples: Vec<Value> = vec![];
    let mut all_complete = true;
    let only = std::env::var("VERIF_SCENARIO").ok();
    // Iterative context bounding ACROSS scenarios: every scenario completes bound b before any scenario starts
    // bound b+1, so that a wall-clock cap costs the deepest bound of the last scenarios, never a whole scenario.
    struct ScState {
        completed_bound: i64,
        passes: Vec<Value>,
        outcomes: BTreeSet<String>,
        stop: bool,
    }
    let mut st: Vec<ScState> = scs.iter().map(|_| ScState { completed_bound: -1, passes: vec![], outcomes: BTreeSet::new(), stop: false }).collect();
    for b in 0..=max_bound {
        for (si, sc) in scs.iter().enumerate() {
            if let Some(o) = &only {
                if o != sc.name {
                    continue;
                }
            }
            if st[si].stop {
                continue;
            }
            if Instant::now() > deadline {
                all_complete = false;
                continue;
            }
            let t0 = Instant::now();
            let (res, complete) = explore(si, b, per_pass_cap, deadline, jobs);
            let mut by_pre: BTreeMap<u32, usize> = BTreeMap::new();
            let mut max_points = 0usize;
            let mut fails = 0usize;
            if let Some(r) = res.iter().filter(|r| r.preemptions == b && r.ok).max_by_key(|r| r.points) {
                if samples.len() < 40 {
                    samples.push(json!({"scenario": sc.name, "preemptions": r.preemptions, "thread_picked_at_each_choice_point": r.picks, "outcome": r.outcome}));
                }
            }
            for r in &res {
                *by_pre.entry(r.preemptions).or_insert(0) += 1;
                max_points = max_points.max(r.points);
                total_points += r.points as u64;
                if !r.outcome.is_empty() {
                    st[si].outcomes.insert(r.outcome.clone());
                }
                if r.failure == "machinery" {
                    machinery.push(format!("{}: {}", sc.name, r.detail));
                } else if !r.ok {
                    fails += 1;
                    match finding_for(&listed, sc.name, r) {
                        Some(id) => {
                            let e = known.entry(id).or_insert_with(|| (0, sc.name.to_string(), r.clone()));
                            e.0 += 1;
                        }
                        None => violations.push((sc.name.to_string(), r.clone())),
                    }
                }
            }
            total_exec += res.len();
            st[si].passes.push(json!({"preemption_bound": b, "schedules_executed": res.len(), "complete": complete, "schedules_by_preemptions": by_pre, "max_choice_points_per_schedule": max_points, "failing_schedules": fails, "wall_s": (t0.elapsed().as_secs_f64()*100.0).round()/100.0}));
            eprintln!("[C14] {} bound {b}: schedules={} complete={complete} max_points={max_points} failing={fails} outcomes={} {:.1}s", sc.name, res.len(), st[si].outcomes.len(), t0.elapsed().as_secs_f64());
            if complete {
                st[si].completed_bound = b as i64;
            } else {
                all_complete = false;
                st[si].stop = true;
            }
            // once a scenario fails at some bound, deeper bounds only re-find it
            if fails > 0 {
                st[si].stop = true;
            }
        }
    }
    for (si, sc) in scs.iter().enumerate() {
        if let Some(o) = &only {
            if o != sc.name {
                continue;
            }
        }
        if st[si].completed_bound < max_bound as i64 && !st[si].stop {
            all_complete = false;
        }
        outcomes_all += st[si].outcomes.len();
        per.push(json!({"scenario": sc.name, "what": sc.what, "clients": sc.clients, "setup": sc.setup, "completed_preemption_bound": st[si].completed_bound, "passes": st[si].passes, "distinct_outcomes": st[si].outcomes.len()}));
    }
    for (id, (n, scn, r)) in &known {
        let path = write_replay(&json!({"property": "C14", "classification": format!("known:{id}"), "scenario": scn, "picks": r.picks, "failure": r.failure, "detail": r.detail, "outcome": r.outcome}));
        println!("KNOWN-FINDING: property=C14 {id} {} [re-observed in {n} schedules; first witness: scenario {scn}, picks {:?}; replay={path}]", texts.get(id).cloned().unwrap_or_default(), r.picks);
    }
    for (id, text) in &texts {
        if !known.contains_key(id) {
            println!("KNOWN-FINDING: property=C14 {id} {text} [listed; not re-observed within the bounds of this run]");
        }
    }
    let mut exit = 0;
    if std::env::var("VERIF_TRIAGE").is_ok() {
        let mut agg: BTreeMap<String, (usize, Vec<u8>)> = BTreeMap::new();
        for (scn, r) in &violations {
            let e = agg.entry(format!("{scn}\t{}\t{}\t{}", r.failure, r.outcome, r.detail.chars().take(200).collect::<String>())).or_insert((0, r.picks.clone()));
            e.0 += 1;
            if r.picks.len() < e.1.len() {
                e.1 = r.picks.clone();
            }
        }
        for (k, (n, picks)) in &agg {
            eprintln!("TRIAGE\t{n}\t{k}\tpicks={picks:?}");
        }
    }
    let mut seen_sig = BTreeSet::new();
    for (scn, r) in &violations {
        let sig = format!("{scn}/{}", r.failure);
        if !seen_sig.insert(sig) || seen_sig.len() > 20 {
            continue;
        }
        let path = write_replay(&json!({"property": "C14", "classification": "violation", "scenario": scn, "picks": r.picks, "failure": r.failure, "detail": r.detail, "outcome": r.outcome}));
        println!("VIOLATION property=C14 replay={path}");
        println!("  scenario: {scn}\n  failure: {}\n  {}\n  schedule (thread picked at each choice point): {:?}\n  observed: {}", r.failure, r.detail, r.picks, r.outcome);
        exit = 1;
    }
    if !machinery.is_empty() {
        for m in machinery.iter().take(5) {
            eprintln!("MACHINERY-ERROR property=C14: {m}");
        }
        if exit == 0 {
            exit = 2;
        }
    }
    ev.violations = violations.len();
    ev.set("schedules", json!(total_exec));
    ev.set("states", json!(total_points));
    ev.set("transitions", json!(total_points));
    ev.set("traces_validated_against_impl", json!(total_exec));
    ev.set("evaluations", json!(total_exec));
    ev.set("distinct_nontrivial", json!(outcomes_all));
    ev.set("distinct_observed_outcomes", json!(outcomes_all));
    ev.set("exhaustive", json!(all_complete));
    ev.set("scenarios", json!(per));
    if samples.is_empty() {
        samples.push(json!("no schedule was executed"));
    }
    ev.set("samples", json!(samples));
    ev.set("known_findings_reobserved", json!(known.iter().map(|(k, v)| (k.clone(), v.0)).collect::<BTreeMap<_, _>>()));
    ev.set("rule", json!("for each scenario: enumerate every schedule of the client threads with at most B preemptions (B = 0, 1, ...; a scheduling point is every lock acquisition of a client thread; a switch away from a thread that could continue is a preemption); every execution runs the real engine from a fresh database; oracle: no deadlock / livelock / panic / internal error, and (per-statement results, final contents) equal to what the engine produces for some serial order of the same transactions"));
    ev.assume("client threads execute their statements themselves (inline task mode, hook verif::set_inline_tasks): the worker pool's queueing is not part of the explored schedules");
    ev.assume("scheduling points are lock acquisitions (parking_lot RwLock/Mutex replaced by a scheduler-aware stand-in for this build); code between two acquisitions runs atomically, so data races on memory that no lock protects are not explored");
    ev.assume("two or three clients with one to three statements each on tables of 1-4 rows (single-page trees); preemption bound as reported per scenario");
    ev.assume("the serial reference is the engine itself run on one thread");
    ev.write();
    eprintln!("[C14] total: schedules={total_exec} choice-points={total_points} outcomes={outcomes_all} violations={} known={} exit={exit}", violations.len(), known.len());
    exit
}

fn replay(file: &str) -> i32 {
    let v: Value = serde_json::from_str(&std::fs::read_to_string(file).expect("read")).expect("json");
    let scs = scenarios();
    let name = v["scenario"].as_str().unwrap_or("");
    let Some((si, sc)) = scs.iter().enumerate().find(|(_, s)| s.name == name) else {
        eprintln!("unknown scenario {name}");
        return 2;
    };
    let picks: Vec<u8> = serde_json::from_value(v["picks"].clone()).unwrap_or_default();
    install_panic_counter();
    axmosdb::verif::set_inline_tasks(true);
    let allowed = serial_outcomes(sc).expect("serial reference");
    println!("serial outcomes:");
    for (o, order) in &allowed {
        println!("  order {order:?}: {o}");
    }
    for round in 0..2 {
        let r = run_controlled(si, sc, &picks, 0, &allowed);
        println!("run {round}: ok={} failure={} points={} preemptions={}\n  observed: {}\n  {}", r.ok, r.failure, r.points, r.preemptions, r.outcome, r.detail);
    }
    cleanup_scratch();
    0
}

fn main() {
    let args: Vec<String> = std::env::args().collect();
    match args.get(1).map(|s| s.as_str()) {
        Some("--worker") => worker_main(),
        Some("check") => {
            let tier = args.get(3).cloned().unwrap_or_else(|| "quick".into());
            std::process::exit(check(&tier));
        }
        Some("replay") => std::process::exit(replay(&args[2])),
        _ => {
            eprintln!("usage: verif-conc check C14 <quick|thorough> | replay <file>");
            std::process::exit(2);
        }
    }
}
