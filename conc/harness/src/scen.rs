//! Scenarios, client operations, the serial-order oracle: shared by the scheduler-driven harness
//! (main.rs) and the free-running race-detector pass (../../tsan).

use crate::sqldrv::*;
use axmosdb::Database;
use serde::{Deserialize, Serialize};
use std::collections::BTreeMap;
use std::sync::Arc;

#[derive(Debug, Clone, Serialize, Deserialize, PartialEq)]
pub enum COp {
    /// autocommit statement
    Auto(String),
    Begin,
    Stmt(String),
    Commit,
    Rollback,
    /// maintenance calls of the public API
    Vacuum,
    Flush,
}

#[derive(Debug, Clone)]
pub struct Scenario {
    pub name: &'static str,
    pub what: &'static str,
    pub setup: Vec<String>,
    pub clients: Vec<Vec<COp>>,
    pub tables: Vec<&'static str>,
    pub cfg: Cfg,
}

pub fn auto(s: &str) -> COp {
    COp::Auto(s.into())
}
pub fn stmt(s: &str) -> COp {
    COp::Stmt(s.into())
}

pub fn scenarios() -> Vec<Scenario> {
    let base = || vec!["CREATE TABLE a (k INT, v INT)".to_string(), "CREATE TABLE b (k INT, v INT)".to_string(), "INSERT INTO a VALUES (1, 10), (2, 20)".to_string(), "INSERT INTO b VALUES (1, 100)".to_string()];
    let uniq = || vec!["CREATE TABLE x (k INT, v INT, UNIQUE(k))".to_string(), "INSERT INTO x VALUES (1, 10), (2, 20)".to_string(), "CREATE TABLE a (k INT, v INT)".to_string(), "INSERT INTO a VALUES (1, 10)".to_string()];
    let cfg = Cfg { pool: 1, ..Cfg::default() };
    let big_named = |t: &str, n: usize| -> Vec<String> {
        let mut v = vec![format!("CREATE TABLE {t} (k INT, t TEXT)")];
        for chunk in (1..=n).collect::<Vec<_>>().chunks(10) {
            v.push(format!("INSERT INTO {t} VALUES {}", chunk.iter().map(|k| format!("({k}, '{}')", ((b'a' + (*k % 26) as u8) as char).to_string().repeat(300))).collect::<Vec<_>>().join(", ")));
        }
        v
    };
    let big = |n: usize| big_named("s", n);
    vec![
        Scenario { name: "readers", what: "two readers of one table", setup: base(), clients: vec![vec![auto("SELECT * FROM a")], vec![auto("SELECT * FROM a WHERE k = 1")]], tables: vec!["a", "b"], cfg },
        Scenario { name: "reader-writer", what: "reader and inserter on one table", setup: base(), clients: vec![vec![auto("SELECT * FROM a")], vec![auto("INSERT INTO a VALUES (3, 30)")]], tables: vec!["a", "b"], cfg },
        Scenario { name: "writers-different-tables", what: "two inserters, different tables", setup: base(), clients: vec![vec![auto("INSERT INTO a VALUES (3, 30)")], vec![auto("INSERT INTO b VALUES (2, 200)")]], tables: vec!["a", "b"], cfg },
        Scenario { name: "writers-same-table", what: "two inserters, same table, different keys", setup: base(), clients: vec![vec![auto("INSERT INTO a VALUES (3, 30)")], vec![auto("INSERT INTO a VALUES (4, 40)")]], tables: vec!["a", "b"], cfg },
        Scenario { name: "delete-vs-read", what: "deleter and reader on one table", setup: base(), clients: vec![vec![auto("DELETE FROM a WHERE k = 1")], vec![auto("SELECT * FROM a")]], tables: vec!["a", "b"], cfg },
        Scenario { name: "update-vs-update", what: "two updaters of different rows of one table", setup: base(), clients: vec![vec![auto("UPDATE a SET v = 11 WHERE k = 1")], vec![auto("UPDATE a SET v = 21 WHERE k = 2")]], tables: vec!["a", "b"], cfg },
        Scenario {
            name: "session-vs-autocommit",
            what: "an older session that commits after a newer autocommit writer, which then reads its own write",
            setup: base(),
            clients: vec![vec![COp::Begin, stmt("SELECT * FROM a"), COp::Commit], vec![auto("INSERT INTO b VALUES (2, 200)"), auto("SELECT * FROM b")]],
            tables: vec!["a", "b"],
            cfg,
        },
        Scenario { name: "unique-inserters", what: "two inserters of different keys into a table with a unique index", setup: uniq(), clients: vec![vec![auto("INSERT INTO x VALUES (3, 30)")], vec![auto("INSERT INTO x VALUES (4, 40)")]], tables: vec!["x", "a"], cfg },
        Scenario { name: "index-read-vs-insert", what: "index lookup and insert on a table with a unique index", setup: uniq(), clients: vec![vec![auto("SELECT * FROM x WHERE k = 2")], vec![auto("INSERT INTO x VALUES (3, 30)")]], tables: vec!["x", "a"], cfg },
        Scenario { name: "ddl-vs-dml", what: "CREATE TABLE and an insert into another table", setup: base(), clients: vec![vec![auto("CREATE TABLE c (k INT)")], vec![auto("INSERT INTO a VALUES (3, 30)")]], tables: vec!["a", "b"], cfg },
        Scenario { name: "drop-vs-select", what: "DROP TABLE and a reader of the same table", setup: base(), clients: vec![vec![auto("DROP TABLE b")], vec![auto("SELECT * FROM b")]], tables: vec!["a"], cfg },
        Scenario {
            name: "session-rollback-vs-reader",
            what: "a session that inserts and rolls back, and a reader",
            setup: base(),
            clients: vec![vec![COp::Begin, stmt("INSERT INTO a VALUES (5, 50)"), COp::Rollback], vec![auto("SELECT * FROM a")]],
            tables: vec!["a", "b"],
            cfg,
        },
        Scenario {
            name: "session-writers",
            what: "two sessions inserting different keys into one table and committing",
            setup: base(),
            clients: vec![vec![COp::Begin, stmt("INSERT INTO a VALUES (5, 50)"), COp::Commit], vec![COp::Begin, stmt("INSERT INTO a VALUES (6, 60)"), COp::Commit]],
            tables: vec!["a", "b"],
            cfg,
        },
        Scenario { name: "delete-same-row", what: "two deleters of the same row", setup: base(), clients: vec![vec![auto("DELETE FROM a WHERE k = 1")], vec![auto("DELETE FROM a WHERE k = 1")]], tables: vec!["a", "b"], cfg },
        Scenario { name: "increment-same-row", what: "two read-modify-write updates of the same row", setup: base(), clients: vec![vec![auto("UPDATE a SET v = v + 1 WHERE k = 1")], vec![auto("UPDATE a SET v = v + 1 WHERE k = 1")]], tables: vec!["a", "b"], cfg },
        Scenario {
            name: "update-same-row-different-columns",
            what: "two updaters of different columns of the same row",
            setup: vec!["CREATE TABLE c3 (id INT, a INT, b INT)".into(), "INSERT INTO c3 VALUES (1, 0, 0), (2, 0, 0)".into()],
            clients: vec![vec![auto("UPDATE c3 SET a = 5 WHERE id = 1")], vec![auto("UPDATE c3 SET b = 6 WHERE id = 1")]],
            tables: vec!["c3"],
            cfg,
        },
        Scenario {
            name: "update-vs-delete-same-table",
            what: "an update of one row and a delete of another row of the same table",
            setup: vec!["CREATE TABLE c3 (id INT, a INT, b INT)".into(), "INSERT INTO c3 VALUES (1, 0, 0), (2, 0, 0)".into()],
            clients: vec![vec![auto("UPDATE c3 SET a = 5 WHERE id = 1")], vec![auto("DELETE FROM c3 WHERE id = 2")]],
            tables: vec!["c3"],
            cfg,
        },
        Scenario { name: "split-vs-scan", what: "an insert that splits the root leaf (13th row of 300 B) and a full scan", setup: big(12), clients: vec![vec![auto(&format!("INSERT INTO s VALUES (100, '{}')", "z".repeat(300)))], vec![auto("SELECT k FROM s")]], tables: vec!["s"], cfg },
        Scenario {
            name: "two-splitting-inserters",
            what: "two inserts into a full root leaf",
            setup: big(12),
            clients: vec![vec![auto(&format!("INSERT INTO s VALUES (100, '{}')", "z".repeat(300)))], vec![auto(&format!("INSERT INTO s VALUES (0, '{}')", "y".repeat(300)))]],
            tables: vec!["s"],
            cfg,
        },
        Scenario {
            name: "eviction-two-scans",
            what: "two scans of two 4-page tables under a 10-page cache",
            setup: { let mut v = big(40); v.extend(big_named("r", 40)); v },
            clients: vec![vec![auto("SELECT k FROM s")], vec![auto("SELECT k FROM r")]],
            tables: vec!["s", "r"],
            cfg: Cfg { cache: 10, ..cfg },
        },
        Scenario {
            name: "eviction-scan-vs-insert",
            what: "a scan and an insert on two 4-page tables under a 10-page cache",
            setup: { let mut v = big(40); v.extend(big_named("r", 40)); v },
            clients: vec![vec![auto("SELECT k FROM s")], vec![auto(&format!("INSERT INTO r VALUES (100, '{}')", "z".repeat(300)))]],
            tables: vec!["s", "r"],
            cfg: Cfg { cache: 10, ..cfg },
        },
        Scenario { name: "vacuum-vs-insert", what: "VACUUM (after a delete left garbage) and an insert into the same table", setup: { let mut v = base(); v.push("DELETE FROM a WHERE k = 2".into()); v }, clients: vec![vec![COp::Vacuum], vec![auto("INSERT INTO a VALUES (3, 30)")]], tables: vec!["a", "b"], cfg },
        Scenario { name: "vacuum-vs-scan", what: "VACUUM (after a delete and an update left garbage) and a reader", setup: { let mut v = base(); v.push("DELETE FROM a WHERE k = 2".into()); v.push("UPDATE a SET v = 11 WHERE k = 1".into()); v }, clients: vec![vec![COp::Vacuum], vec![auto("SELECT * FROM a")]], tables: vec!["a", "b"], cfg },
        Scenario { name: "flush-vs-insert", what: "a checkpoint (flush) and an insert", setup: base(), clients: vec![vec![COp::Flush], vec![auto("INSERT INTO a VALUES (3, 30)")]], tables: vec!["a", "b"], cfg },
        Scenario { name: "flush-vs-scan", what: "a checkpoint (flush) and a reader of a 4-page table", setup: big(40), clients: vec![vec![COp::Flush], vec![auto("SELECT k FROM s")]], tables: vec!["s"], cfg },
        Scenario {
            name: "eviction-overflow-inserters",
            what: "two inserts of 9000-byte values (three-page overflow chains) into two 4-page tables under a 12-page cache",
            setup: { let mut v = big(40); v.extend(big_named("r", 40)); v },
            clients: vec![vec![auto(&format!("INSERT INTO s VALUES (100, '{}')", "z".repeat(9000)))], vec![auto(&format!("INSERT INTO r VALUES (100, '{}')", "y".repeat(9000)))]],
            tables: vec!["s", "r"],
            cfg: Cfg { cache: 12, ..cfg },
        },
        Scenario {
            name: "eviction-overflow-insert-vs-scan",
            what: "an insert of a 9000-byte value and a scan of another 4-page table under a 12-page cache",
            setup: { let mut v = big(40); v.extend(big_named("r", 40)); v },
            clients: vec![vec![auto(&format!("INSERT INTO s VALUES (100, '{}')", "z".repeat(9000)))], vec![auto("SELECT k FROM r")]],
            tables: vec!["s", "r"],
            cfg: Cfg { cache: 12, ..cfg },
        },
        // cold cache: the setup ends with a checkpoint, so every page is first touched by the clients
        Scenario { name: "cold-insert-vs-scan", what: "cold cache (checkpoint last): an insert and a reader first touch the same pages", setup: { let mut v = base(); v.push("#flush".into()); v }, clients: vec![vec![auto("INSERT INTO a VALUES (3, 30)")], vec![auto("SELECT * FROM a")]], tables: vec!["a", "b"], cfg },
        Scenario { name: "cold-writers-same-table", what: "cold cache: two inserters into one table", setup: { let mut v = base(); v.push("#flush".into()); v }, clients: vec![vec![auto("INSERT INTO a VALUES (3, 30)")], vec![auto("INSERT INTO a VALUES (4, 40)")]], tables: vec!["a", "b"], cfg },
        Scenario { name: "cold-update-vs-delete", what: "cold cache: an update and a delete of different rows of one table", setup: { let mut v = base(); v.push("#flush".into()); v }, clients: vec![vec![auto("UPDATE a SET v = 11 WHERE k = 1")], vec![auto("DELETE FROM a WHERE k = 2")]], tables: vec!["a", "b"], cfg },
        Scenario { name: "cold-unique-insert-vs-lookup", what: "cold cache: insert into and index lookup on a table with a unique index", setup: { let mut v = uniq(); v.push("#flush".into()); v }, clients: vec![vec![auto("INSERT INTO x VALUES (3, 30)")], vec![auto("SELECT * FROM x WHERE k = 2")]], tables: vec!["x", "a"], cfg },
        Scenario { name: "cold-ddl-vs-dml", what: "cold cache: CREATE TABLE and an insert into another table (both first touch the catalog pages)", setup: { let mut v = base(); v.push("#flush".into()); v }, clients: vec![vec![auto("CREATE TABLE c (k INT)")], vec![auto("INSERT INTO a VALUES (3, 30)")]], tables: vec!["a", "b"], cfg },
        // index scan (holds the index tree, fetches rows from the table tree) against a delete (table tree, then index tree)
        Scenario { name: "index-scan-vs-delete", what: "range scan through a unique index and a delete on the same table", setup: uniq(), clients: vec![vec![auto("SELECT * FROM x WHERE k >= 1")], vec![auto("DELETE FROM x WHERE k = 2")]], tables: vec!["x", "a"], cfg },
        Scenario { name: "index-lookup-vs-delete", what: "point lookup through a unique index and a delete of another key", setup: uniq(), clients: vec![vec![auto("SELECT * FROM x WHERE k = 1")], vec![auto("DELETE FROM x WHERE k = 2")]], tables: vec!["x", "a"], cfg },
        // a pool of ONE worker (hook verif::set_inline_single_worker): a task that waits while it occupies the worker
        // blocks every queued task
        Scenario { name: "pool1-vacuum-vs-insert", what: "single pool worker: VACUUM and an insert", setup: { let mut v = base(); v.push("DELETE FROM a WHERE k = 2".into()); v }, clients: vec![vec![COp::Vacuum], vec![auto("INSERT INTO a VALUES (3, 30)")]], tables: vec!["a", "b"], cfg },
        Scenario { name: "pool1-flush-vs-insert", what: "single pool worker: a checkpoint and an insert", setup: base(), clients: vec![vec![COp::Flush], vec![auto("INSERT INTO a VALUES (3, 30)")]], tables: vec!["a", "b"], cfg },
        Scenario { name: "pool1-vacuum-vs-two", what: "single pool worker: VACUUM, an insert and a reader", setup: base(), clients: vec![vec![COp::Vacuum], vec![auto("INSERT INTO a VALUES (3, 30)")], vec![auto("SELECT * FROM a")]], tables: vec!["a", "b"], cfg },
        Scenario {
            name: "pool1-session-vs-autocommit",
            what: "single pool worker: a two-statement session and an autocommit writer",
            setup: base(),
            clients: vec![vec![COp::Begin, stmt("INSERT INTO a VALUES (3, 30)"), stmt("SELECT * FROM a"), COp::Commit], vec![auto("INSERT INTO b VALUES (2, 200)")]],
            tables: vec!["a", "b"],
            cfg,
        },
        Scenario {
            name: "three-clients",
            what: "two inserters on different tables and a reader",
            setup: base(),
            clients: vec![vec![auto("INSERT INTO a VALUES (3, 30)")], vec![auto("INSERT INTO b VALUES (2, 200)")], vec![auto("SELECT * FROM a")]],
            tables: vec!["a", "b"],
            cfg,
        },
    ]
}

// ------------------------------------------------------------------------------------ running ops

pub fn norm(o: &Out) -> String {
    match o {
        Out::Rows(r) => {
            let mut r = r.clone();
            r.sort();
            Out::Rows(r).show()
        }
        Out::Err(c, _) => format!("ERR<{c:?}>"),
        other => other.show(),
    }
}

pub fn exec_out(r: Result<axmosdb::runtime::QueryResult, String>) -> Out {
    match r {
        Ok(q) => from_query_result(q),
        Err(m) => Out::Err(classify(&m), m),
    }
}

/// Run one client's operations on the calling thread. Returns (normalised results, raw error texts).
pub fn run_ops(db: &Database, ops: &[COp]) -> (Vec<String>, Vec<String>) {
    let mut res = vec![];
    let mut errs = vec![];
    let mut sess: Option<axmosdb::tcp::session::Session> = None;
    let mut push = |o: Out, res: &mut Vec<String>| {
        if let Out::Err(_, m) = &o {
            errs.push(m.clone());
        }
        res.push(norm(&o));
    };
    for op in ops {
        match op {
            COp::Auto(sql) => push(exec_out(db.execute(sql).map_err(|e| e.to_string())), &mut res),
            COp::Begin => match db.session() {
                Ok(s) => {
                    sess = Some(s);
                    res.push("begin-ok".into());
                }
                Err(e) => push(Out::Err(classify(&e.to_string()), e.to_string()), &mut res),
            },
            COp::Stmt(sql) => match sess.as_mut() {
                Some(s) => push(exec_out(s.execute(sql).map_err(|e| e.to_string())), &mut res),
                None => res.push("no-session".into()),
            },
            COp::Commit => match sess.take() {
                Some(mut s) => match s.commit_transaction() {
                    Ok(()) => res.push("commit-ok".into()),
                    Err(e) => push(Out::Err(classify(&e.to_string()), e.to_string()), &mut res),
                },
                None => res.push("no-session".into()),
            },
            COp::Vacuum => match db.vacuum() {
                Ok(_) => res.push("vacuum-ok".into()),
                Err(e) => push(Out::Err(classify(&e.to_string()), e.to_string()), &mut res),
            },
            COp::Flush => match db.flush() {
                Ok(_) => res.push("flush-ok".into()),
                Err(e) => push(Out::Err(classify(&e.to_string()), e.to_string()), &mut res),
            },
            COp::Rollback => match sess.take() {
                Some(mut s) => match s.abort_transaction() {
                    Ok(()) => res.push("rollback-ok".into()),
                    Err(e) => push(Out::Err(classify(&e.to_string()), e.to_string()), &mut res),
                },
                None => res.push("no-session".into()),
            },
        }
    }
    (res, errs)
}

pub fn fresh_db(sc: &Scenario) -> Result<(Arc<Database>, std::path::PathBuf), String> {
    let dir = fresh_dir("conc");
    let p = Db::path_in(&dir);
    let db = Database::create(&p, sc.cfg.to_db()).map_err(|e| format!("create: {e}"))?;
    for s in &sc.setup {
        // "#flush": a checkpoint, which also empties the page cache (the clients then start on a cold cache)
        if s == "#flush" {
            db.flush().map_err(|e| format!("setup flush: {e}"))?;
            continue;
        }
        db.execute(s).map_err(|e| format!("setup `{s}`: {e}"))?;
    }
    Ok((Arc::new(db), dir))
}

pub fn audit(db: &Database, sc: &Scenario) -> String {
    let mut parts = vec![];
    for t in &sc.tables {
        // full rows: long values are shown abbreviated (prefix + length) by Val::show, so an unreadable or
        // truncated overflow chain is visible in the outcome
        let o = exec_out(db.execute(&format!("SELECT * FROM {t}")).map_err(|e| e.to_string()));
        parts.push(format!("{t}={}", norm(&o)));
    }
    parts.join(" ")
}

/// Split a client's ops into transactions (autocommit statement, or Begin..Commit/Rollback).
pub fn transactions(ops: &[COp]) -> Vec<Vec<COp>> {
    let mut out = vec![];
    let mut cur: Vec<COp> = vec![];
    for op in ops {
        match op {
            COp::Auto(_) | COp::Vacuum | COp::Flush if cur.is_empty() => out.push(vec![op.clone()]),
            COp::Commit | COp::Rollback => {
                cur.push(op.clone());
                out.push(std::mem::take(&mut cur));
            }
            _ => cur.push(op.clone()),
        }
    }
    if !cur.is_empty() {
        out.push(cur);
    }
    out
}

/// All merges of the clients' transaction lists that keep each client's own order.
pub fn merges(lens: &[usize]) -> Vec<Vec<usize>> {
    fn go(lens: &[usize], pos: &mut Vec<usize>, cur: &mut Vec<usize>, out: &mut Vec<Vec<usize>>) {
        if pos.iter().zip(lens).all(|(p, l)| p == l) {
            out.push(cur.clone());
            return;
        }
        for c in 0..lens.len() {
            if pos[c] < lens[c] {
                pos[c] += 1;
                cur.push(c);
                go(lens, pos, cur, out);
                cur.pop();
                pos[c] -= 1;
            }
        }
    }
    let mut out = vec![];
    go(lens, &mut vec![0; lens.len()], &mut vec![], &mut out);
    out
}

/// Final state as seen now and again after a clean close and reopen (what reached the disk).
pub fn audit_twice(db: Arc<Database>, dir: &std::path::Path, sc: &Scenario) -> String {
    let now = audit(&db, sc);
    drop(db);
    let p = Db::path_in(dir);
    match Database::open(&p, sc.cfg.to_db()) {
        Ok(db2) => {
            let again = audit(&db2, sc);
            drop(db2);
            if again == now { now } else { format!("{now} || AFTER REOPEN: {again}") }
        }
        Err(e) => format!("{now} || REOPEN FAILED: {e}"),
    }
}

pub fn outcome_string(results: &[Vec<String>], audit: &str) -> String {
    format!("{} || final: {audit}", results.iter().enumerate().map(|(i, r)| format!("T{i}: {}", r.join(" ; "))).collect::<Vec<_>>().join(" | "))
}

/// Outcomes of every serial order, produced by the engine itself on one thread.
pub fn serial_outcomes(sc: &Scenario) -> Result<BTreeMap<String, Vec<usize>>, String> {
    let txs: Vec<Vec<Vec<COp>>> = sc.clients.iter().map(|c| transactions(c)).collect();
    let lens: Vec<usize> = txs.iter().map(|t| t.len()).collect();
    let mut out = BTreeMap::new();
    for order in merges(&lens) {
        let (db, dir) = fresh_db(sc)?;
        let mut pos = vec![0usize; lens.len()];
        let mut results: Vec<Vec<String>> = vec![vec![]; lens.len()];
        for c in &order {
            let t = &txs[*c][pos[*c]];
            pos[*c] += 1;
            let (r, _) = run_ops(&db, t);
            results[*c].extend(r);
        }
        let a = audit_twice(db, &dir, sc);
        let _ = std::fs::remove_dir_all(&dir);
        out.entry(outcome_string(&results, &a)).or_insert(order);
    }
    Ok(out)
}

