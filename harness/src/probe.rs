//! Plain script runner used for hand replay and exploration of engine behaviour.
//! Script lines:  `db: <sql>` | `s<n>: begin|commit|rollback|drop|<sql>` | `reopen` | `crash` (simulated process death + open) | `vacuum` | `flush` | `analyze` | `explain: <sql>` | `cfg page cache pool minkeys siblings`
use crate::sqldrv::*;

pub fn run(args: &[String]) -> i32 {
    let text = if args.is_empty() || args[0] == "-" {
        std::io::read_to_string(std::io::stdin()).unwrap()
    } else {
        std::fs::read_to_string(&args[0]).unwrap()
    };
    let mut cfg = Cfg::default();
    let mut db: Option<Db> = None;
    for line in text.lines() {
        let line = line.trim();
        if line.is_empty() || line.starts_with('#') {
            continue;
        }
        if let Some(rest) = line.strip_prefix("cfg ") {
            let v: Vec<usize> = rest.split_whitespace().map(|x| x.parse().unwrap()).collect();
            cfg = Cfg { page_size: v[0], cache: v[1], pool: v[2], min_keys: v[3], siblings: v[4] };
            continue;
        }
        if db.is_none() {
            db = Some(Db::create("probe", cfg).unwrap());
        }
        let d = db.as_mut().unwrap();
        let t0 = std::time::Instant::now();
        let res: String = if line == "reopen" {
            format!("{:?}", d.reopen(cfg))
        } else if line == "crash" {
            // simulated process death (handles leaked, nothing flushed), then open with recovery
            d.crash();
            match Db::open_in(d.dir.clone(), cfg) {
                Ok(mut nd) => {
                    d.replace_handle(&mut nd);
                    std::mem::forget(nd);
                    "crashed and reopened".into()
                }
                Err(e) => format!("open after crash failed: {e}"),
            }
        } else if line == "vacuum" {
            format!("{:?}", d.vacuum())
        } else if line == "flush" {
            format!("{:?}", d.flush())
        } else if line == "analyze" {
            format!("{:?}", d.analyze())
        } else if let Some(sql) = line.strip_prefix("explain:") {
            format!("{:?}", d.explain(sql.trim()))
        } else if let Some(sql) = line.strip_prefix("db:") {
            d.exec(sql.trim()).show()
        } else if line.starts_with('s') && line.contains(':') {
            let (h, sql) = line.split_once(':').unwrap();
            let n: u8 = h[1..].parse().unwrap();
            let sql = sql.trim();
            match sql {
                "begin" => format!("{:?}", d.begin(n)),
                "commit" => format!("{:?}", d.commit(n)),
                "rollback" => format!("{:?}", d.rollback(n)),
                "drop" => { d.drop_session(n); "dropped".into() }
                _ => d.sexec(n, sql).show(),
            }
        } else {
            format!("?? unknown line")
        };
        println!("{:<60} -> {}   [{:.1}ms]", line, res, t0.elapsed().as_secs_f64() * 1e3);
        if d.poisoned {
            println!("   (instance poisoned: panic observed: {})", last_panic());
        }
    }
    0
}
