//! Reference model: a textbook multi-version store with snapshot isolation.
//!
//! Deliberately boring: every physical row keeps the list of its versions with the
//! transaction that created each and the transaction that deleted the row; a transaction
//! sees what was committed before it began plus its own writes. Implementation-only
//! failures (I/O, cache exhaustion) are not in the model.
//!
//! The model also evaluates *hazards*: predicates over the history that name a listed
//! known finding (see known_findings.txt). When a hazard fires the history is tainted:
//! steps before the hazard are judged strictly, the hazard step and everything after it
//! are not judged and the history is not extended.

use crate::sqldrv::{ErrClass, Val};
use serde::{Deserialize, Serialize};
use std::collections::{BTreeMap, BTreeSet};

pub type Tx = u32;

#[derive(Debug, Clone, Copy, PartialEq, Eq, PartialOrd, Ord, Hash, Serialize, Deserialize)]
pub enum ColTy {
    Int,
    BigInt,
    Double,
    Text,
    Bool,
}

impl ColTy {
    pub fn sql(&self) -> &'static str {
        match self {
            ColTy::Int => "INT",
            ColTy::BigInt => "BIGINT",
            ColTy::Double => "DOUBLE",
            ColTy::Text => "TEXT",
            ColTy::Bool => "BOOL",
        }
    }
}

#[derive(Debug, Clone, PartialEq, Eq, PartialOrd, Ord, Hash, Serialize, Deserialize)]
pub struct ColDef {
    pub name: String,
    pub ty: ColTy,
    pub not_null: bool,
    pub default: Option<Val>,
}

#[derive(Debug, Clone, PartialEq, Eq, PartialOrd, Ord, Hash, Serialize, Deserialize)]
pub struct TableDef {
    pub name: String,
    pub cols: Vec<ColDef>,
    /// each entry: column names of one UNIQUE / PRIMARY KEY constraint
    pub uniques: Vec<Vec<String>>,
    /// true if the first unique is declared PRIMARY KEY
    pub pk: bool,
    /// names of indexes created by CREATE UNIQUE INDEX / ADD CONSTRAINT
    #[serde(default)]
    pub index_names: Vec<String>,
}

impl TableDef {
    pub fn simple(name: &str, cols: &[(&str, ColTy)]) -> TableDef {
        TableDef {
            name: name.into(),
            cols: cols.iter().map(|(n, t)| ColDef { name: n.to_string(), ty: *t, not_null: false, default: None }).collect(),
            uniques: vec![],
            pk: false,
            index_names: vec![],
        }
    }
    pub fn with_unique(mut self, cols: &[&str]) -> Self {
        self.uniques.push(cols.iter().map(|s| s.to_string()).collect());
        self
    }
    pub fn with_not_null(mut self, col: &str) -> Self {
        for c in self.cols.iter_mut() {
            if c.name == col {
                c.not_null = true;
            }
        }
        self
    }
    pub fn col_idx(&self, name: &str) -> Option<usize> {
        self.cols.iter().position(|c| c.name == name)
    }
    pub fn sql(&self) -> String {
        let mut parts: Vec<String> = self
            .cols
            .iter()
            .map(|c| {
                let mut s = format!("{} {}", c.name, c.ty.sql());
                if c.not_null {
                    s.push_str(" NOT NULL");
                }
                if let Some(d) = &c.default {
                    s.push_str(&format!(" DEFAULT {}", lit(d)));
                }
                s
            })
            .collect();
        for (i, u) in self.uniques.iter().enumerate() {
            if i == 0 && self.pk {
                parts.push(format!("PRIMARY KEY({})", u.join(", ")));
            } else {
                parts.push(format!("UNIQUE({})", u.join(", ")));
            }
        }
        format!("CREATE TABLE {} ({})", self.name, parts.join(", "))
    }
}

pub fn lit(v: &Val) -> String {
    match v {
        Val::Null => "NULL".into(),
        Val::Bool(b) => if *b { "TRUE".into() } else { "FALSE".into() },
        Val::Int(i) => format!("{i}"),
        Val::Real(b) => {
            let f = f64::from_bits(*b);
            if f.fract() == 0.0 && f.abs() < 1e15 { format!("{:.1}", f) } else { format!("{}", f) }
        }
        Val::Text(s) => format!("'{}'", s.replace('\'', "''")),
        Val::Bytes(_) => "NULL".into(),
    }
}

/// `col = const` (None = no WHERE clause)
pub type Pred = Option<(String, Val)>;

#[derive(Debug, Clone, PartialEq, Eq, PartialOrd, Ord, Hash, Serialize, Deserialize)]
pub enum Stmt {
    CreateTable(TableDef),
    DropTable(String),
    Insert { table: String, rows: Vec<Vec<Val>> },
    Update { table: String, set: Vec<(String, Val)>, pred: Pred },
    Delete { table: String, pred: Pred },
    Select { table: String, pred: Pred },
    CreateUniqueIndex { name: String, table: String, cols: Vec<String> },
    AddColumn { table: String, col: ColDef },
    DropColumn { table: String, col: String },
    SetNotNull { table: String, col: String },
    DropNotNull { table: String, col: String },
    AddUnique { table: String, name: String, cols: Vec<String> },
    /// A statement that must fail with the given class and change nothing.
    Failing { sql: String, class: ErrClass },
}

fn pred_sql(p: &Pred) -> String {
    match p {
        None => String::new(),
        Some((c, Val::Null)) => format!(" WHERE {c} IS NULL"),
        Some((c, v)) => format!(" WHERE {c} = {}", lit(v)),
    }
}

impl Stmt {
    pub fn sql(&self) -> String {
        match self {
            Stmt::CreateTable(d) => d.sql(),
            Stmt::DropTable(t) => format!("DROP TABLE {t}"),
            Stmt::Insert { table, rows } => format!(
                "INSERT INTO {table} VALUES {}",
                rows.iter()
                    .map(|r| format!("({})", r.iter().map(lit).collect::<Vec<_>>().join(", ")))
                    .collect::<Vec<_>>()
                    .join(", ")
            ),
            Stmt::Update { table, set, pred } => format!(
                "UPDATE {table} SET {}{}",
                set.iter().map(|(c, v)| format!("{c} = {}", lit(v))).collect::<Vec<_>>().join(", "),
                pred_sql(pred)
            ),
            Stmt::Delete { table, pred } => format!("DELETE FROM {table}{}", pred_sql(pred)),
            Stmt::Select { table, pred } => format!("SELECT * FROM {table}{}", pred_sql(pred)),
            Stmt::CreateUniqueIndex { name, table, cols } => {
                format!("CREATE UNIQUE INDEX {name} ON {table} ({})", cols.join(", "))
            }
            Stmt::AddColumn { table, col } => {
                let mut s = format!("ALTER TABLE {table} ADD COLUMN {} {}", col.name, col.ty.sql());
                if col.not_null {
                    s.push_str(" NOT NULL");
                }
                if let Some(d) = &col.default {
                    s.push_str(&format!(" DEFAULT {}", lit(d)));
                }
                s
            }
            Stmt::DropColumn { table, col } => format!("ALTER TABLE {table} DROP COLUMN {col}"),
            Stmt::SetNotNull { table, col } => format!("ALTER TABLE {table} ALTER COLUMN {col} SET NOT NULL"),
            Stmt::DropNotNull { table, col } => format!("ALTER TABLE {table} ALTER COLUMN {col} DROP NOT NULL"),
            Stmt::AddUnique { table, cols, .. } => {
                // the engine's grammar has no constraint name here
                format!("ALTER TABLE {table} ADD CONSTRAINT UNIQUE ({})", cols.join(", "))
            }
            Stmt::Failing { sql, .. } => sql.clone(),
        }
    }
    pub fn is_read(&self) -> bool {
        matches!(self, Stmt::Select { .. })
    }
    pub fn is_ddl(&self) -> bool {
        matches!(
            self,
            Stmt::CreateTable(_)
                | Stmt::DropTable(_)
                | Stmt::CreateUniqueIndex { .. }
                | Stmt::AddColumn { .. }
                | Stmt::DropColumn { .. }
                | Stmt::SetNotNull { .. }
                | Stmt::DropNotNull { .. }
                | Stmt::AddUnique { .. }
        )
    }
}

#[derive(Debug, Clone, PartialEq, Eq, PartialOrd, Ord, Hash, Serialize, Deserialize)]
pub enum Op {
    Auto(Stmt),
    Begin(u8),
    In(u8, Stmt),
    Commit(u8),
    Rollback(u8),
    DropSession(u8),
    Batch(Vec<Stmt>),
    Vacuum,
    Flush,
    Reopen,
    Analyze,
    /// autocommit `SELECT *` of every table the model knows as committed
    Audit,
}

fn shorten(s: String) -> String {
    // long literals (multi-page rows) are abbreviated in scripts; the replay artefact keeps the structured op
    if s.len() <= 200 {
        return s;
    }
    let mut out = String::new();
    let mut run = 0usize;
    let mut last = '\0';
    for c in s.chars() {
        if c == last {
            run += 1;
            if run == 12 {
                out.push('…');
            }
            if run >= 12 {
                continue;
            }
        } else {
            if run >= 12 {
                out.push_str(&format!("(x{})", run + 1));
            }
            run = 0;
            last = c;
        }
        out.push(c);
    }
    out
}

impl Op {
    pub fn show(&self) -> String {
        shorten(self.show_full())
    }
    pub fn show_full(&self) -> String {
        match self {
            Op::Auto(s) => format!("db: {}", s.sql()),
            Op::Begin(n) => format!("s{n}: begin"),
            Op::In(n, s) => format!("s{n}: {}", s.sql()),
            Op::Commit(n) => format!("s{n}: commit"),
            Op::Rollback(n) => format!("s{n}: rollback"),
            Op::DropSession(n) => format!("s{n}: drop"),
            Op::Batch(v) => format!("batch[{}]", v.iter().map(|s| s.sql()).collect::<Vec<_>>().join("; ")),
            Op::Vacuum => "vacuum".into(),
            Op::Flush => "flush".into(),
            Op::Reopen => "reopen".into(),
            Op::Analyze => "analyze".into(),
            Op::Audit => "audit".into(),
        }
    }
}

/// What the model expects from one statement.
#[derive(Debug, Clone, PartialEq, Eq, Serialize, Deserialize)]
pub enum Exp {
    /// rows as a multiset (sorted)
    Rows(Vec<Vec<Val>>),
    Count(u64),
    Ddl,
    Err(ErrClass),
    /// session call (begin/commit/rollback/vacuum/...) succeeds
    Unit,
}

impl Exp {
    pub fn show(&self) -> String {
        match self {
            Exp::Rows(r) => format!(
                "rows{{{}}}",
                r.iter()
                    .map(|row| format!("({})", row.iter().map(|v| v.show()).collect::<Vec<_>>().join(",")))
                    .collect::<Vec<_>>()
                    .join(" ")
            ),
            Exp::Count(n) => format!("count={n}"),
            Exp::Ddl => "ddl-ok".into(),
            Exp::Err(c) => format!("ERR<{c:?}>"),
            Exp::Unit => "ok".into(),
        }
    }
}

#[derive(Debug, Clone, PartialEq, Eq, PartialOrd, Ord, Hash, Serialize, Deserialize)]
pub enum TxState {
    Active,
    Committed(u64),
    Aborted,
}

#[derive(Debug, Clone, PartialEq, Eq, PartialOrd, Ord, Hash, Serialize, Deserialize)]
pub struct TxInfo {
    pub state: TxState,
    pub begin_seq: u64,
    pub explicit: bool,
}

#[derive(Debug, Clone, PartialEq, Eq, PartialOrd, Ord, Hash, Serialize, Deserialize)]
pub struct PhysRow {
    /// (creator, values), oldest first
    pub versions: Vec<(Tx, Vec<Val>)>,
    pub xmax: Option<Tx>,
}

#[derive(Debug, Clone, PartialEq, Eq, PartialOrd, Ord, Hash, Serialize, Deserialize)]
pub struct Table {
    /// schema versions: (creator of this shape, shape); oldest first
    pub defs: Vec<(Tx, TableDef)>,
    pub created_by: Tx,
    pub dropped_by: Option<Tx>,
    pub rows: Vec<PhysRow>,
    /// physically removed by VACUUM (kept as a tombstone so that names stay unique in the key)
    pub purged: bool,
}

#[derive(Debug, Clone, PartialEq, Eq, Serialize, Deserialize)]
pub struct Model {
    pub txs: Vec<TxInfo>,
    pub tables: Vec<Table>,
    pub sessions: BTreeMap<u8, Tx>,
    pub seq: u64,
    /// findings (by id) whose hazard fired; non-empty = tainted
    /// alphabet switch: VACUUM may be issued while sessions are open (it aborts their transactions)
    #[serde(default)]
    pub vacuum_with_sessions: bool,
    pub taint: Vec<String>,
    /// listed findings whose exact engine behaviour the model reproduced on this history (the history stays judged)
    #[serde(default)]
    pub quirks: Vec<String>,
    /// engine-side state changes made on a quirk path that the model's own state does not show (part of the key)
    #[serde(default)]
    pub quirk_marks: Vec<String>,
    /// the last successful DDL statements in order: two orders of the same schema changes end in the same model
    /// state but not necessarily in the same catalogue state of the engine, so the order is part of the key
    #[serde(default)]
    pub ddl_trail: Vec<String>,
    /// known-finding ids this run is allowed to use as hazards
    pub enabled_hazards: BTreeSet<String>,
    /// follow the engine's UPDATE exactly where the update-in-place finding is listed (statement-level engines);
    /// the crash engine keeps it a hazard because restart recovery DOES undo a loser's update
    pub exact_updates: bool,
    #[serde(skip)]
    pub inplace_dirty: bool,
    #[serde(skip)]
    pub stmt_garbage: Option<(usize, Vec<Vec<Val>>)>,
    /// checkpoints (flush / VACUUM / reopen) so far, and the value it had when each row got its delete mark
    pub ckpt_epoch: u32,
    /// a trailing column was dropped while rows of the old shape exist (they keep their stored layout)
    pub old_shape_rows: bool,
    /// transactions that had written when a checkpoint ran (crash checks only)
    pub ckpt_writers: BTreeSet<Tx>,
    #[serde(skip)]
    pub delete_epoch: BTreeMap<(usize, usize), u32>,
    /// transactions with an in-place-update hazard pending (KF-update-in-place)
    pub pending_update: BTreeSet<Tx>,
    /// transactions that re-inserted a unique key they deleted themselves (KF-reinsert-overwrites-index-entry
    /// fires if anyone else begins before they commit, or if they abort)
    #[serde(default)]
    pub pending_reinsert: BTreeSet<Tx>,
    pub reopen_count: u32,
    pub vacuum_count: u32,
    /// maintenance operations (V vacuum, R reopen, F flush) since the last operation that could change data, in
    /// order. They do not change the model's contents but they do change the engine's internal state, and their
    /// ORDER matters there (what a VACUUM may discard depends on what committed before it), so it is part of the
    /// state key; otherwise `reopen; vacuum` and `vacuum; reopen` would be merged and only one of them extended
    #[serde(default)]
    pub maint_trail: String,
    /// highest transaction that has committed so far and whether the most recent commit was by an
    /// older transaction than that (engine-side counters can tell these situations apart)
    pub max_committed: Option<Tx>,
    pub last_commit_out_of_order: bool,
}

pub const KF_UPDATE_IN_PLACE: &str = "KF-update-in-place";
pub const KF_NO_WW_CONFLICT: &str = "KF-no-ww-conflict";
pub const KF_ABORTED_DELETE: &str = "KF-aborted-delete-sticks";
pub const KF_UNIQUE_CONCURRENT: &str = "KF-unique-concurrent-inserters";
pub const KF_UPDATE_UNIQUE_TABLE: &str = "KF-update-on-indexed-table";
pub const KF_DROP_IN_TXN: &str = "KF-drop-table-in-transaction";
pub const KF_ALTER: &str = "KF-alter-in-transaction";
pub const KF_SET_NOT_NULL_UNCHECKED: &str = "KF-set-not-null-ignores-existing-nulls";
pub const KF_ADD_COLUMN: &str = "KF-add-column-fails";
pub const KF_DROP_COLUMN: &str = "KF-drop-column-corrupts-rows";
pub const KF_FLUSH_ZERO_CACHE: &str = "KF-flush-zero-cache";
pub const KF_PARTIAL_STATEMENT: &str = "KF-failed-statement-partial-effects";
pub const KF_ADD_UNIQUE: &str = "KF-alter-add-unique-not-enforced";
pub const KF_INDEX_ABORTED_INSERT: &str = "KF-index-entry-of-aborted-insert";
pub const KF_NULL_IN_UNIQUE: &str = "KF-null-in-unique-column";
pub const KF_INDEX_DDL_IN_TXN: &str = "KF-create-index-in-transaction";
pub const KF_REINSERT_INDEX: &str = "KF-reinsert-overwrites-index-entry";
pub const KF_CHECKPOINT_OPEN_WRITER: &str = "KF-checkpoint-with-open-writer";
pub const KF_VACUUM_FORGETS_OLDER_OPEN_TX: &str = "KF-vacuum-forgets-open-transaction-older-than-last-commit";
pub const KF_VACUUM_ABORT_COMMIT_LEAK: &str = "KF-commit-of-vacuum-aborted-session-leaks-after-reopen";

impl Model {
    pub fn new(enabled: &BTreeSet<String>) -> Model {
        Model {
            txs: vec![],
            tables: vec![],
            sessions: BTreeMap::new(),
            seq: 1,
            vacuum_with_sessions: false,
            taint: vec![],
            quirks: vec![],
            quirk_marks: vec![],
            ddl_trail: vec![],
            enabled_hazards: enabled.clone(),
            exact_updates: false,
            inplace_dirty: false,
            stmt_garbage: None,
            ckpt_epoch: 0,
            old_shape_rows: false,
            ckpt_writers: BTreeSet::new(),
            delete_epoch: BTreeMap::new(),
            pending_update: BTreeSet::new(),
            pending_reinsert: BTreeSet::new(),
            reopen_count: 0,
            vacuum_count: 0,
            maint_trail: String::new(),
            max_committed: None,
            last_commit_out_of_order: false,
        }
    }

    /// no relation exists that a fresh snapshot cannot see but whose pages are still allocated (a rolled-back or
    /// still-open CREATE, a DROP that no VACUUM has purged yet)
    pub fn no_invisible_relations(&self) -> bool {
        self.tables.iter().all(|tb| tb.purged || (matches!(self.txs[tb.created_by as usize].state, TxState::Committed(_)) && tb.dropped_by.is_none()))
    }

    /// checkpoint-time writers whose fate is still open
    pub fn undecided_ckpt_writers(&self) -> usize {
        self.ckpt_writers.iter().filter(|t| self.txs[**t as usize].state == TxState::Active).count()
    }

    pub fn tainted(&self) -> bool {
        !self.taint.is_empty()
    }

    /// Fire a hazard. Returns true if the finding is listed (history becomes tainted);
    /// false if it is not listed, in which case the model keeps judging strictly.
    fn hazard(&mut self, id: &str) -> bool {
        if self.enabled_hazards.contains(id) {
            if !self.taint.iter().any(|t| t == id) {
                self.taint.push(id.to_string());
            }
            true
        } else {
            false
        }
    }

    /// A listed finding with crisp semantics: the model follows the engine and keeps judging.
    fn quirk(&mut self, id: &str) -> bool {
        if self.enabled_hazards.contains(id) {
            if !self.quirks.iter().any(|t| t == id) {
                self.quirks.push(id.to_string());
            }
            true
        } else {
            false
        }
    }

    fn begin_tx(&mut self, explicit: bool) -> Tx {
        let id = self.txs.len() as Tx;
        // a transaction beginning while another one has an uncommitted in-place update
        if !self.pending_update.is_empty() {
            self.hazard(KF_UPDATE_IN_PLACE);
        }
        if !self.pending_reinsert.is_empty() {
            self.hazard(KF_REINSERT_INDEX);
        }
        self.txs.push(TxInfo { state: TxState::Active, begin_seq: self.seq, explicit });
        self.seq += 1;
        id
    }

    fn commit_tx(&mut self, t: Tx) {
        self.txs[t as usize].state = TxState::Committed(self.seq);
        self.seq += 1;
        self.pending_update.remove(&t);
        self.pending_reinsert.remove(&t);
        match self.max_committed {
            Some(m) if m > t => self.last_commit_out_of_order = true,
            _ => {
                self.max_committed = Some(t);
                self.last_commit_out_of_order = false;
            }
        }
    }

    fn abort_tx(&mut self, t: Tx) {
        self.txs[t as usize].state = TxState::Aborted;
        if self.pending_update.remove(&t) {
            self.hazard(KF_UPDATE_IN_PLACE);
        }
        if self.pending_reinsert.remove(&t) {
            self.hazard(KF_REINSERT_INDEX);
        }
    }

    pub fn active_txs(&self) -> Vec<Tx> {
        (0..self.txs.len() as Tx).filter(|t| self.txs[*t as usize].state == TxState::Active).collect()
    }

    fn sees_tx(&self, reader: Tx, x: Tx) -> bool {
        if x == reader {
            return true;
        }
        match self.txs[x as usize].state {
            TxState::Committed(s) => s < self.txs[reader as usize].begin_seq,
            _ => false,
        }
    }

    /// is `x` concurrent with `t` (active, or committed after t began) and not aborted
    fn concurrent(&self, t: Tx, x: Tx) -> bool {
        if x == t {
            return false;
        }
        match self.txs[x as usize].state {
            TxState::Active => true,
            TxState::Committed(s) => s >= self.txs[t as usize].begin_seq,
            TxState::Aborted => false,
        }
    }

    fn table_visible(&self, t: Tx, tb: &Table) -> bool {
        if tb.purged {
            return false;
        }
        self.sees_tx(t, tb.created_by) && !tb.dropped_by.map(|d| self.sees_tx(t, d)).unwrap_or(false)
    }

    fn find_table(&self, t: Tx, name: &str) -> Option<usize> {
        // newest first
        (0..self.tables.len()).rev().find(|i| {
            let tb = &self.tables[*i];
            tb.defs[0].1.name == name && self.table_visible(t, tb)
        })
    }

    fn def_for<'a>(&self, t: Tx, tb: &'a Table) -> &'a TableDef {
        tb.defs.iter().rev().find(|(x, _)| self.sees_tx(t, *x)).map(|(_, d)| d).unwrap_or(&tb.defs[0].1)
    }

    fn row_visible<'a>(&self, t: Tx, r: &'a PhysRow) -> Option<&'a Vec<Val>> {
        if let Some(d) = r.xmax {
            if self.sees_tx(t, d) {
                return None;
            }
        }
        r.versions.iter().rev().find(|(x, _)| self.sees_tx(t, *x)).map(|(_, v)| v)
    }

    /// visible rows of table index `ti` for `t` with their physical index
    fn visible_rows(&self, t: Tx, ti: usize) -> Vec<(usize, Vec<Val>)> {
        self.tables[ti]
            .rows
            .iter()
            .enumerate()
            .filter_map(|(i, r)| self.row_visible(t, r).map(|v| (i, v.clone())))
            .collect()
    }

    fn matches(def: &TableDef, p: &Pred, row: &[Val]) -> Result<bool, ErrClass> {
        match p {
            None => Ok(true),
            Some((c, v)) => {
                let i = def.col_idx(c).ok_or(ErrClass::Bind)?;
                Ok(match v {
                    Val::Null => row[i] == Val::Null,
                    _ => row[i] != Val::Null && val_eq(&row[i], v),
                })
            }
        }
    }

    /// last writer (creator of newest version or deleter) of a physical row that is concurrent with t
    fn concurrent_writer(&self, t: Tx, r: &PhysRow) -> bool {
        let newest = r.versions.last().map(|(x, _)| *x);
        let mut ws: Vec<Tx> = newest.into_iter().collect();
        if let Some(d) = r.xmax {
            ws.push(d);
        }
        // a version in the middle of the chain written by a concurrent transaction also counts
        for (x, _) in &r.versions {
            ws.push(*x);
        }
        ws.into_iter().any(|x| self.concurrent(t, x))
    }

    fn check_row_shape(def: &TableDef, row: &[Val]) -> Result<(), ErrClass> {
        if row.len() != def.cols.len() {
            return Err(ErrClass::Bind);
        }
        for (c, v) in def.cols.iter().zip(row.iter()) {
            if *v == Val::Null {
                if c.not_null {
                    return Err(ErrClass::NotNull);
                }
            }
        }
        Ok(())
    }

    fn unique_key(def: &TableDef, u: &[String], row: &[Val]) -> Option<Vec<Val>> {
        let k: Vec<Val> = u.iter().map(|c| row[def.col_idx(c).unwrap()].clone()).collect();
        if k.iter().any(|v| *v == Val::Null) { None } else { Some(k) }
    }

    /// Unique check of `row` against table `ti` as seen by `t`, ignoring physical row `skip`.
    /// Err(Unique) for a visible duplicate; fires KF-unique-concurrent for a concurrent one.
    fn check_unique(&mut self, t: Tx, ti: usize, def: &TableDef, row: &[Val], skip: Option<usize>) -> Result<(), ErrClass> {
        for u in def.uniques.clone() {
            let Some(k) = Self::unique_key(def, &u, row) else {
                // SQL: a NULL in a UNIQUE column never conflicts
                self.hazard(KF_NULL_IN_UNIQUE);
                continue;
            };
            let mut concurrent_dup = false;
            let mut aborted_dup = false;
            let mut visible_dup = false;
            let mut reinsert = false;
            let mut pend_reinsert = false;
            for (i, r) in self.tables[ti].rows.iter().enumerate() {
                if Some(i) == skip {
                    continue;
                }
                // an index entry left behind by a rolled-back writer of the same key
                for (x, v) in &r.versions {
                    if self.txs[*x as usize].state == TxState::Aborted && v.len() == def.cols.len() && Self::unique_key(def, &u, v).as_ref() == Some(&k) {
                        aborted_dup = true;
                    }
                }
                if let Some(v) = self.row_visible(t, r) {
                    if Self::unique_key(def, &u, v).as_ref() == Some(&k) {
                        visible_dup = true;
                        // the duplicate this snapshot still sees was deleted by a concurrent transaction:
                        // whether the statement "would break the constraint" is a matter of definition
                        if r.xmax.map(|d| self.concurrent(t, d)).unwrap_or(false) {
                            concurrent_dup = true;
                        }
                    }
                }
                // a deleted row with the same key whose index entry the insert will overwrite in place
                // while some snapshot may still need the old entry
                if let Some(d) = r.xmax {
                    let same_key = r.versions.iter().any(|(_, v)| v.len() == def.cols.len() && Self::unique_key(def, &u, v).as_ref() == Some(&k));
                    let d_live = self.txs[d as usize].state != TxState::Aborted;
                    let others_active = self.active_txs().into_iter().any(|x| x != t);
                    if same_key && d_live && others_active {
                        reinsert = true;
                    } else if same_key && d == t && self.txs[t as usize].explicit && self.enabled_hazards.contains(KF_REINSERT_INDEX) {
                        pend_reinsert = true;
                    }
                }
                // rows written by concurrent transactions that may end up live
                for (x, v) in &r.versions {
                    if self.concurrent(t, *x) && v.len() == def.cols.len() && Self::unique_key(def, &u, v).as_ref() == Some(&k) {
                        let deleted_for_good = r.xmax.map(|d| matches!(self.txs[d as usize].state, TxState::Committed(_))).unwrap_or(false);
                        if !deleted_for_good {
                            concurrent_dup = true;
                        }
                    }
                }
            }
            if concurrent_dup {
                self.hazard(KF_UNIQUE_CONCURRENT);
            }
            if aborted_dup {
                self.hazard(KF_INDEX_ABORTED_INSERT);
            }
            if reinsert {
                self.hazard(KF_REINSERT_INDEX);
            }
            if pend_reinsert {
                self.pending_reinsert.insert(t);
            }
            if visible_dup {
                return Err(ErrClass::Unique);
            }
        }
        Ok(())
    }

    /// Execute a statement for transaction t. On Err the model state is unchanged.
    pub fn exec(&mut self, t: Tx, s: &Stmt) -> Exp {
        let backup = (self.tables.clone(), self.taint.clone(), self.pending_update.clone());
        self.inplace_dirty = false;
        match self.exec_inner(t, s) {
            Ok(e) => {
                if s.is_ddl() {
                    // the ORDER in which schema changes were applied is engine state (see `ddl_trail`)
                    self.ddl_trail.push(s.sql());
                    if self.ddl_trail.len() > 4 {
                        self.ddl_trail.remove(0);
                    }
                }
                e
            }
            Err(c) => {
                if self.inplace_dirty {
                    // an UPDATE that fails after it has overwritten rows in place keeps those rows changed; WHICH rows
                    // depends on the scan order, so this stays a hazard
                    self.hazard(KF_UPDATE_IN_PLACE);
                }
                self.tables = backup.0;
                if let Some((ti, rows)) = self.stmt_garbage.take() {
                    for row in rows {
                        self.tables[ti].rows.push(PhysRow { versions: vec![(t, row)], xmax: None });
                    }
                }
                // hazards raised during a failing statement stay raised
                let _ = (backup.1, backup.2);
                Exp::Err(c)
            }
        }
    }

    fn exec_inner(&mut self, t: Tx, s: &Stmt) -> Result<Exp, ErrClass> {
        // a table this transaction still sees although its DROP is in flight or committed after the snapshot:
        // the tree is already freed (listed finding)
        let named: Option<&str> = match s {
            Stmt::CreateTable(d) => Some(&d.name),
            Stmt::DropTable(n) => Some(n),
            Stmt::Insert { table, .. } | Stmt::Update { table, .. } | Stmt::Delete { table, .. } | Stmt::Select { table, .. } => Some(table),
            Stmt::CreateUniqueIndex { table, .. } | Stmt::AddColumn { table, .. } | Stmt::DropColumn { table, .. } | Stmt::SetNotNull { table, .. } | Stmt::DropNotNull { table, .. } | Stmt::AddUnique { table, .. } => Some(table),
            Stmt::Failing { .. } => None,
        };
        if let Some(ti) = named.and_then(|n| self.find_table(t, n)) {
            if self.tables[ti].dropped_by.is_some() {
                self.hazard(KF_DROP_IN_TXN);
            }
        }
        match s {
            Stmt::Failing { class, .. } => Err(*class),
            Stmt::CreateTable(d) => {
                if self.find_table(t, &d.name).is_some() {
                    return Err(ErrClass::AlreadyExists);
                }
                // a concurrent creator of the same name
                let clash = self.tables.iter().any(|tb| {
                    !tb.purged && tb.defs[0].1.name == d.name && self.concurrent(t, tb.created_by) && tb.dropped_by.is_none()
                });
                if clash {
                    self.hazard(KF_UNIQUE_CONCURRENT);
                }
                self.tables.push(Table { defs: vec![(t, d.clone())], created_by: t, dropped_by: None, rows: vec![], purged: false });
                Ok(Exp::Ddl)
            }
            Stmt::DropTable(name) => {
                let ti = self.find_table(t, name).ok_or(ErrClass::Bind)?;
                // The tree is freed at once. That is outside the listed finding only for an auto-commit DROP
                // whose table no open transaction has written; an open transaction that later still NAMES
                // the table (its snapshot predates the drop) raises the hazard then (see `exec_inner` head).
                let others: Vec<Tx> = self.active_txs().into_iter().filter(|x| *x != t).collect();
                let tb = &self.tables[ti];
                let touched = others.iter().any(|o| {
                    tb.created_by == *o || tb.defs.iter().any(|(x, _)| x == o) || tb.rows.iter().any(|r| r.xmax == Some(*o) || r.versions.iter().any(|(x, _)| x == o))
                });
                if self.txs[t as usize].explicit || touched {
                    self.hazard(KF_DROP_IN_TXN);
                }
                self.tables[ti].dropped_by = Some(t);
                Ok(Exp::Ddl)
            }
            Stmt::Insert { table, rows } => {
                let ti = self.find_table(t, table).ok_or(ErrClass::Bind)?;
                let def = self.def_for(t, &self.tables[ti]).clone();
                for (n, row) in rows.iter().enumerate() {
                    Self::check_row_shape(&def, row)?;
                    let r = self.check_unique(t, ti, &def, row, None);
                    if let Err(e) = r {
                        if n > 0 && self.txs[t as usize].explicit {
                            // rows before the failing one: statement atomicity inside an open transaction
                            self.hazard(KF_PARTIAL_STATEMENT);
                        }
                        if n > 0 && !self.txs[t as usize].explicit {
                            // an auto-commit statement that fails on a later row has already written the earlier ones;
                            // its transaction is aborted, the rows (and their index entries) stay behind as garbage
                            // of an aborted transaction until VACUUM - which the index findings care about
                            self.stmt_garbage = Some((ti, rows[..n].to_vec()));
                        }
                        return Err(e);
                    }
                    self.tables[ti].rows.push(PhysRow { versions: vec![(t, row.clone())], xmax: None });
                }
                Ok(Exp::Count(rows.len() as u64))
            }
            Stmt::Select { table, pred } => {
                let ti = self.find_table(t, table).ok_or(ErrClass::Bind)?;
                let def = self.def_for(t, &self.tables[ti]).clone();
                let mut out = vec![];
                for (_, v) in self.visible_rows(t, ti) {
                    if Self::matches(&def, pred, &v)? {
                        out.push(v);
                    }
                }
                out.sort();
                Ok(Exp::Rows(out))
            }
            Stmt::Delete { table, pred } => {
                let ti = self.find_table(t, table).ok_or(ErrClass::Bind)?;
                let def = self.def_for(t, &self.tables[ti]).clone();
                let mut n = 0;
                for (i, v) in self.visible_rows(t, ti) {
                    if Self::matches(&def, pred, &v)? {
                        let r = self.tables[ti].rows[i].clone();
                        // A row that already carries a delete mark this transaction cannot see as committed (its
                        // deleter is still active, was rolled back, or committed after this snapshot): the engine's
                        // Tuple::delete leaves the first mark alone and the statement still counts the row. Both listed
                        // findings (no write-write conflict detection; a rolled-back DELETE sticks) have exactly this
                        // crisp shape, so the model follows the engine and keeps judging (exact quirk).
                        if let Some(d) = r.xmax {
                            if d != t {
                                let id = if self.txs[d as usize].state == TxState::Aborted { KF_ABORTED_DELETE } else { KF_NO_WW_CONFLICT };
                                let only_the_mark = !r.versions.iter().any(|(x, _)| *x != d && self.concurrent(t, *x));
                                // The crash checks follow the quirk only where restart recovery agrees with the running
                                // engine: the first deleter has COMMITTED and no checkpoint lies between its delete and this
                                // one (recovery then undoes the loser first and redoes the committed delete). In the other
                                // cases recovery contradicts what the running engine showed - a consequence of the same listed
                                // finding - and the history stays unjudged.
                                let crash_ok = matches!(self.txs[d as usize].state, TxState::Committed(_)) && self.delete_epoch.get(&(ti, i)) == Some(&self.ckpt_epoch);
                                if only_the_mark && (self.exact_updates || crash_ok) && self.quirk(id) {
                                    n += 1;
                                    continue;
                                }
                            }
                        }
                        if self.concurrent_writer(t, &r) {
                            if !self.hazard(KF_NO_WW_CONFLICT) {
                                return Err(ErrClass::Conflict);
                            }
                        }
                        if let Some(d) = r.xmax {
                            if self.txs[d as usize].state == TxState::Aborted {
                                self.hazard(KF_ABORTED_DELETE);
                            }
                        }
                        self.tables[ti].rows[i].xmax = Some(t);
                        self.delete_epoch.insert((ti, i), self.ckpt_epoch);
                        n += 1;
                    }
                }
                Ok(Exp::Count(n))
            }
            Stmt::Update { table, set, pred } => {
                let ti = self.find_table(t, table).ok_or(ErrClass::Bind)?;
                let def = self.def_for(t, &self.tables[ti]).clone();
                let targets: Vec<(usize, Vec<Val>)> = self.visible_rows(t, ti);
                if !def.uniques.is_empty() {
                    // An UPDATE of a table with a unique index is a listed finding once it WRITES (the index keeps the old
                    // key). An UPDATE that addresses exactly one row and must be refused - its new key is held by another
                    // visible row - is refused by the validation that runs before anything is written: judged.
                    let mut hit = vec![];
                    for (i, v) in &targets {
                        if Self::matches(&def, pred, v)? {
                            hit.push((*i, v.clone()));
                        }
                    }
                    if hit.len() == 1 {
                        let (i, v) = hit[0].clone();
                        let mut nv = v.clone();
                        for (c, x) in set {
                            let ci = def.col_idx(c).ok_or(ErrClass::Bind)?;
                            nv[ci] = x.clone();
                        }
                        if Self::check_row_shape(&def, &nv).is_ok() {
                            let before = self.taint.len();
                            if let Err(ErrClass::Unique) = self.check_unique(t, ti, &def, &nv, Some(i)) {
                                if self.taint.len() == before {
                                    return Err(ErrClass::Unique);
                                }
                            }
                        }
                    }
                    self.hazard(KF_UPDATE_UNIQUE_TABLE);
                }
                let mut n = 0;
                for (i, v) in targets {
                    if Self::matches(&def, pred, &v)? {
                        let mut nv = v.clone();
                        for (c, x) in set {
                            let ci = def.col_idx(c).ok_or(ErrClass::Bind)?;
                            nv[ci] = x.clone();
                        }
                        if nv == v {
                            // an update that changes nothing still counts as updated in SQL
                        }
                        if !def.uniques.is_empty() {
                            self.hazard(KF_UPDATE_UNIQUE_TABLE);
                        }
                        Self::check_row_shape(&def, &nv)?;
                        self.check_unique(t, ti, &def, &nv, Some(i))?;
                        let rr = self.tables[ti].rows[i].clone();
                        if self.concurrent_writer(t, &rr) {
                            if !self.hazard(KF_NO_WW_CONFLICT) {
                                return Err(ErrClass::Conflict);
                            }
                        }
                        // in-place update hazard (KF-update-in-place)
                        let others_active = self.active_txs().into_iter().any(|x| x != t);
                        // a row whose every version was written by the updater itself is invisible to everyone else
                        // whatever happens to the update, so updating it in place cannot leak
                        let wholly_own = rr.versions.iter().all(|(x, _)| *x == t);
                        if wholly_own {
                        } else if self.exact_updates && self.enabled_hazards.contains(KF_UPDATE_IN_PLACE) {
                            // Listed finding with a crisp shape (exact quirk): every version of a row carries its CREATOR's
                            // id (add_version_with ignores the updater's), so the new values are what everybody who sees
                            // the row's creator reads from now on - at once, and whatever becomes of the updater.
                            if others_active || self.txs[t as usize].explicit {
                                self.quirk(KF_UPDATE_IN_PLACE);
                            }
                            if let Some(last) = self.tables[ti].rows[i].versions.last_mut() {
                                if last.1 != nv {
                                    self.inplace_dirty = true;
                                }
                                last.1 = nv;
                            }
                            n += 1;
                            continue;
                        } else if others_active {
                            self.hazard(KF_UPDATE_IN_PLACE);
                        } else if self.enabled_hazards.contains(KF_UPDATE_IN_PLACE) {
                            // pending until the updater commits; fires if it aborts (explicit rollback,
                            // failed statement or failed batch) or if another transaction begins first
                            self.pending_update.insert(t);
                        }
                        self.tables[ti].rows[i].versions.push((t, nv));
                        n += 1;
                    }
                }
                Ok(Exp::Count(n))
            }
            Stmt::CreateUniqueIndex { table, cols, name } => {
                let ti = self.find_table(t, table).ok_or(ErrClass::Bind)?;
                let mut def = self.def_for(t, &self.tables[ti]).clone();
                for c in cols {
                    def.col_idx(c).ok_or(ErrClass::Bind)?;
                }
                if def.index_names.contains(name) {
                    return Err(ErrClass::AlreadyExists);
                }
                // index names are catalogue-wide: an index of ANY table this transaction can see reserves its name
                for oi in 0..self.tables.len() {
                    if oi != ti && self.table_visible(t, &self.tables[oi]) && self.def_for(t, &self.tables[oi]).index_names.contains(name) {
                        return Err(ErrClass::AlreadyExists);
                    }
                }
                if self.txs[t as usize].explicit || self.active_txs().len() > 1 {
                    self.hazard(KF_INDEX_DDL_IN_TXN);
                }
                def.index_names.push(name.clone());
                // existing duplicates make the index creation fail
                let vis = self.visible_rows(t, ti);
                let mut seen = BTreeSet::new();
                for (_, v) in &vis {
                    if let Some(k) = Self::unique_key(&def, cols, v) {
                        if !seen.insert(k) {
                            return Err(ErrClass::Unique);
                        }
                    }
                }
                def.uniques.push(cols.clone());
                self.tables[ti].defs.push((t, def));
                Ok(Exp::Ddl)
            }
            Stmt::AddUnique { table, cols, .. } => {
                let ti = self.find_table(t, table).ok_or(ErrClass::Bind)?;
                let mut def = self.def_for(t, &self.tables[ti]).clone();
                for c in cols {
                    def.col_idx(c).ok_or(ErrClass::Bind)?;
                }
                // listed finding (exact quirk): ALTER TABLE ... ADD CONSTRAINT UNIQUE records the constraint but builds
                // no index, and uniqueness is enforced through indexes only - so nothing is enforced until a CREATE
                // UNIQUE INDEX on the same columns comes along. The model follows the engine and keeps judging.
                // existing duplicates make the ALTER fail (the engine does build an index for the check)
                let vis = self.visible_rows(t, ti);
                let mut seen = BTreeSet::new();
                for (_, v) in &vis {
                    if let Some(k) = Self::unique_key(&def, cols, v) {
                        if !seen.insert(k) {
                            return Err(ErrClass::Unique);
                        }
                    }
                }
                if self.txs[t as usize].explicit || self.active_txs().len() > 1 {
                    self.hazard(KF_INDEX_DDL_IN_TXN);
                }
                if self.quirk(KF_ADD_UNIQUE) {
                    // the engine's state did change (the constraint is recorded): keep that in the state key
                    self.quirk_marks.push(format!("declared-unique:{table}({})", cols.join(",")));
                    return Ok(Exp::Ddl);
                }
                def.uniques.push(cols.clone());
                self.tables[ti].defs.push((t, def));
                Ok(Exp::Ddl)
            }
            Stmt::AddColumn { table, col } => {
                let ti = self.find_table(t, table).ok_or(ErrClass::Bind)?;
                let mut def = self.def_for(t, &self.tables[ti]).clone();
                if def.col_idx(&col.name).is_some() {
                    return Err(ErrClass::AlreadyExists);
                }
                self.hazard(KF_ADD_COLUMN);
                def.cols.push(col.clone());
                let fill = col.default.clone().unwrap_or(Val::Null);
                // rows get a new version with the added column
                let vis = self.visible_rows(t, ti);
                for (i, v) in vis {
                    let mut nv = v;
                    nv.push(fill.clone());
                    self.tables[ti].rows[i].versions.push((t, nv));
                }
                self.tables[ti].defs.push((t, def));
                Ok(Exp::Ddl)
            }
            Stmt::DropColumn { table, col } => {
                let ti = self.find_table(t, table).ok_or(ErrClass::Bind)?;
                let mut def = self.def_for(t, &self.tables[ti]).clone();
                let ci = def.col_idx(col).ok_or(ErrClass::Bind)?;
                // The rows keep their stored layout (listed finding). Dropping the LAST column is the one shape that leaves
                // them readable: the new schema is a prefix of the stored one. Judged when nobody else is around.
                let trailing_alone = ci + 1 == def.cols.len() && !self.txs[t as usize].explicit && self.active_txs().len() <= 1;
                if !trailing_alone {
                    self.hazard(KF_DROP_COLUMN);
                } else if !self.tables[ti].rows.is_empty() {
                    self.old_shape_rows = true;
                }
                def.cols.remove(ci);
                def.uniques.retain(|u| !u.contains(col));
                let vis = self.visible_rows(t, ti);
                for (i, v) in vis {
                    let mut nv = v;
                    nv.remove(ci);
                    self.tables[ti].rows[i].versions.push((t, nv));
                }
                self.tables[ti].defs.push((t, def));
                Ok(Exp::Ddl)
            }
            Stmt::SetNotNull { table, col } | Stmt::DropNotNull { table, col } => {
                let ti = self.find_table(t, table).ok_or(ErrClass::Bind)?;
                let mut def = self.def_for(t, &self.tables[ti]).clone();
                let ci = def.col_idx(col).ok_or(ErrClass::Bind)?;
                let set = matches!(s, Stmt::SetNotNull { .. });
                if set {
                    for (_, v) in self.visible_rows(t, ti) {
                        if v[ci] == Val::Null {
                            // listed finding: the engine only flips the flag; existing NULLs stay and must still
                            // be read back as NULL (exact quirk: the history stays judged)
                            if !self.quirk(KF_SET_NOT_NULL_UNCHECKED) {
                                return Err(ErrClass::NotNull);
                            }
                        }
                    }
                }
                def.cols[ci].not_null = set;
                if self.txs[t as usize].explicit || self.active_txs().len() > 1 {
                    if self.exact_updates && self.enabled_hazards.contains(KF_ALTER) {
                        // Listed finding with a crisp shape (exact quirk): the catalogue row is overwritten in place like any
                        // updated row, so the new flag holds at once for everybody who sees the table, and for good -
                        // whatever becomes of the altering transaction.
                        self.quirk(KF_ALTER);
                        let creator = self.tables[ti].created_by;
                        let owner = if creator == t || self.sees_tx(t, creator) { creator } else { t };
                        self.tables[ti].defs.push((owner, def));
                        return Ok(Exp::Ddl);
                    }
                    self.hazard(KF_ALTER);
                }
                self.tables[ti].defs.push((t, def));
                Ok(Exp::Ddl)
            }
        }
    }

    /// Names of tables visible to a brand-new transaction.
    pub fn committed_tables(&self) -> Vec<String> {
        let mut v: Vec<String> = self
            .tables
            .iter()
            .filter(|tb| {
                !tb.purged
                    && matches!(self.txs[tb.created_by as usize].state, TxState::Committed(_))
                    && !tb.dropped_by.map(|d| matches!(self.txs[d as usize].state, TxState::Committed(_))).unwrap_or(false)
            })
            .map(|tb| tb.defs[0].1.name.clone())
            .collect();
        v.sort();
        v.dedup();
        v
    }

    /// Apply an operation, returning what the engine is expected to answer.
    /// For `Audit` the answer is one Exp::Rows per committed table (in name order).
    pub fn apply(&mut self, op: &Op) -> Vec<Exp> {
        match op {
            Op::Vacuum => {
                self.maint_trail.push('V');
                self.ckpt_epoch += 1;
                if self.old_shape_rows {
                    // VACUUM re-encodes rows with the current schema: rows of the old shape trip it (same listed finding)
                    self.hazard(KF_DROP_COLUMN);
                }
            }
            Op::Reopen => {
                self.maint_trail.push('R');
                self.ckpt_epoch += 1;
            }
            Op::Flush => {
                self.maint_trail.push('F');
                self.ckpt_epoch += 1;
            }
            Op::Analyze => {
                // ANALYZE rewrites the statistics in every catalogue row: engine state the model does not hold
                if !self.maint_trail.ends_with('A') {
                    self.maint_trail.push('A');
                }
            }
            Op::Audit => {}
            Op::Auto(s) | Op::In(_, s) if s.is_read() => {}
            _ => self.maint_trail.clear(),
        }
        if self.maint_trail.len() > 3 {
            let cut = self.maint_trail.len() - 3;
            self.maint_trail.drain(..cut);
        }
        match op {
            Op::Auto(s) => {
                let t = self.begin_tx(false);
                let e = self.exec(t, s);
                if matches!(e, Exp::Err(_)) { self.abort_tx(t) } else { self.commit_tx(t) }
                vec![e]
            }
            Op::Audit => {
                let t = self.begin_tx(false);
                let mut out = vec![];
                for name in self.committed_tables() {
                    out.push(self.exec(t, &Stmt::Select { table: name, pred: None }));
                }
                self.commit_tx(t);
                out
            }
            Op::Begin(n) => {
                let t = self.begin_tx(true);
                self.sessions.insert(*n, t);
                vec![Exp::Unit]
            }
            Op::In(n, s) => {
                let t = self.sessions[n];
                vec![self.exec(t, s)]
            }
            Op::Commit(n) => {
                let t = self.sessions.remove(n).unwrap();
                if self.txs[t as usize].state == TxState::Aborted {
                    // the transaction was aborted under the session (VACUUM aborts every open transaction):
                    // COMMIT must fail and nothing of it may ever become visible. Listed finding: what the session
                    // wrote AFTER the VACUUM reappears after a reopen when the session ends with this failing COMMIT
                    let wrote = self.tables.iter().any(|tb| tb.created_by == t || tb.rows.iter().any(|r| r.xmax == Some(t) || r.versions.iter().any(|(x, _)| *x == t)));
                    if wrote {
                        self.hazard(KF_VACUUM_ABORT_COMMIT_LEAK);
                    }
                    return vec![Exp::Err(ErrClass::Internal)];
                }
                self.commit_tx(t);
                vec![Exp::Unit]
            }
            Op::Rollback(n) | Op::DropSession(n) => {
                let t = self.sessions.remove(n).unwrap();
                self.abort_tx(t);
                vec![Exp::Unit]
            }
            Op::Batch(stmts) => {
                let t = self.begin_tx(false);
                let backup = self.tables.clone();
                let mut outs = vec![];
                for s in stmts {
                    let e = self.exec(t, s);
                    if let Exp::Err(c) = e {
                        if self.exact_updates && self.enabled_hazards.contains(KF_UPDATE_IN_PLACE) {
                            // rows overwritten in place by the batch's earlier statements stay overwritten (exact quirk);
                            // everything else the batch did disappears with its aborted transaction
                            let _ = backup;
                        } else {
                            self.tables = backup;
                        }
                        self.abort_tx(t);
                        return vec![Exp::Err(c)];
                    }
                    outs.push(e);
                }
                self.commit_tx(t);
                outs
            }
            Op::Vacuum => {
                // documented behaviour: VACUUM aborts every open transaction
                let open: Vec<(u8, Tx)> = self.sessions.iter().map(|(k, v)| (*k, *v)).collect();
                for (_, t) in &open {
                    if self.txs[*t as usize].state == TxState::Aborted {
                        // a session whose transaction an EARLIER VACUUM aborted: this VACUUM's clean-up drops the
                        // aborted entry altogether (same listed finding as below)
                        self.hazard(KF_VACUUM_FORGETS_OLDER_OPEN_TX);
                    }
                    if self.txs[*t as usize].state == TxState::Active {
                        // listed finding: an open transaction that is OLDER than the newest commit is forgotten by
                        // VACUUM's clean-up instead of staying aborted; what its session writes afterwards is
                        // visible to everyone at once and its ROLLBACK fails with "Transaction not found"
                        let began = self.txs[*t as usize].begin_seq;
                        if self.txs.iter().any(|x| matches!(x.state, TxState::Committed(c) if c > began)) {
                            self.hazard(KF_VACUUM_FORGETS_OLDER_OPEN_TX);
                        }
                        self.abort_tx(*t);
                    }
                }
                // rows whose deleter aborted: the engine removes them physically (KF-aborted-delete-sticks)
                let mut haz = false;
                for tb in &self.tables {
                    for r in &tb.rows {
                        if let Some(d) = r.xmax {
                            if self.txs[d as usize].state == TxState::Aborted
                                && r.versions.iter().any(|(x, _)| matches!(self.txs[*x as usize].state, TxState::Committed(_)))
                            {
                                haz = true;
                            }
                        }
                    }
                }
                if haz {
                    self.hazard(KF_ABORTED_DELETE);
                }
                self.vacuum_count += 1;
                self.physical_cleanup();
                vec![Exp::Unit]
            }
            Op::Flush => {
                // a checkpoint while a transaction with writes is open: the engine writes the uncommitted pages
                // and resets the log, so a later crash cannot undo them (KF-checkpoint-with-open-writer)
                let open: Vec<Tx> = self.sessions.values().copied().filter(|t| self.txs[*t as usize].state == TxState::Active).collect();
                let wrote = |t: Tx| self.tables.iter().any(|tb| tb.created_by == t || tb.dropped_by == Some(t) || tb.rows.iter().any(|r| r.xmax == Some(t) || r.versions.iter().any(|(x, _)| *x == t)));
                if open.iter().any(|t| wrote(*t)) {
                    if self.enabled_hazards.contains(KF_CHECKPOINT_OPEN_WRITER) && !self.exact_updates {
                        // crash checks: the finding concerns crashes while such a writer is still undecided; the writers
                        // are remembered and the crash engine classifies crash points by them (see `ckpt_writers`)
                        let ws: Vec<Tx> = open.iter().copied().filter(|t| wrote(*t)).collect();
                        self.ckpt_writers.extend(ws);
                        return vec![Exp::Unit];
                    }
                    self.hazard(KF_CHECKPOINT_OPEN_WRITER);
                }
                vec![Exp::Unit]
            }
            Op::Analyze => vec![Exp::Unit],
            Op::Reopen => {
                let open: Vec<Tx> = self.sessions.values().copied().collect();
                for t in open {
                    if self.txs[t as usize].state == TxState::Active {
                        self.abort_tx(t);
                    }
                }
                self.sessions.clear();
                self.reopen_count += 1;
                vec![Exp::Unit]
            }
        }
    }

    /// What VACUUM may remove without changing any answer (used only to keep the state key honest
    /// about physical residue: after a vacuum dead versions no longer distinguish states).
    fn physical_cleanup(&mut self) {
        let txs = self.txs.clone();
        let committed = |x: Tx| matches!(txs[x as usize].state, TxState::Committed(_));
        let aborted = |x: Tx| txs[x as usize].state == TxState::Aborted;
        for tb in self.tables.iter_mut() {
            if aborted(tb.created_by) || tb.dropped_by.map(committed).unwrap_or(false) {
                tb.purged = true;
                tb.rows.clear();
                continue;
            }
            if tb.dropped_by.map(aborted).unwrap_or(false) {
                tb.dropped_by = None;
            }
            tb.defs.retain(|(x, _)| !aborted(*x));
            tb.rows.retain_mut(|r| {
                if r.xmax.map(aborted).unwrap_or(false) {
                    r.xmax = None;
                }
                r.versions.retain(|(x, _)| !aborted(*x));
                if r.versions.is_empty() {
                    return false;
                }
                if r.xmax.map(committed).unwrap_or(false) {
                    return false;
                }
                // keep only the newest version (all remaining creators are committed; no one is active)
                let last = r.versions.pop().unwrap();
                r.versions.clear();
                r.versions.push(last);
                true
            });
        }
    }

    /// Canonical state key: the whole store with transaction ids replaced by their status
    /// (and, for active ones, the session that owns them).
    pub fn key(&self) -> String {
        let sess_of: BTreeMap<Tx, u8> = self.sessions.iter().map(|(k, v)| (*v, *k)).collect();
        let tx = |x: Tx| -> String {
            match self.txs[x as usize].state {
                TxState::Committed(s) => {
                    // commit order relative to the begin of the open sessions is what visibility depends on
                    let mut vis = String::new();
                    for (sx, sn) in &sess_of {
                        if s < self.txs[*sx as usize].begin_seq {
                            vis.push_str(&format!("<{sn}"));
                        }
                    }
                    format!("C{vis}")
                }
                TxState::Aborted => "A".into(),
                TxState::Active => format!("S{}", sess_of.get(&x).copied().unwrap_or(255)),
            }
        };
        let mut s = String::new();
        for tb in &self.tables {
            if tb.purged {
                // how the object died stays in the key: a table whose CREATE was rolled back and a table that was
                // created and dropped leave different garbage behind in the engine, even after VACUUM
                s.push_str(&format!("[purged cr={} dr={}]", tx(tb.created_by), tb.dropped_by.map(tx).unwrap_or("-".into())));
                continue;
            }
            s.push_str(&format!("[{} cr={} dr={} defs=", tb.defs[0].1.name, tx(tb.created_by), tb.dropped_by.map(tx).unwrap_or("-".into())));
            for (x, d) in &tb.defs {
                s.push_str(&format!("{}:{};", tx(*x), d.sql()));
            }
            for r in &tb.rows {
                s.push_str("(");
                for (x, v) in &r.versions {
                    s.push_str(&format!("{}:{}|", tx(*x), v.iter().map(|v| v.show()).collect::<Vec<_>>().join(",")));
                }
                s.push_str(&format!("x={})", r.xmax.map(tx).unwrap_or("-".into())));
            }
            s.push(']');
        }
        s.push_str(&format!(
            " open={:?} pend={}/{} taint={:?} quirk={:?} ddl={:?} reopen={} vac={} maint={} ooo={}",
            self.sessions.keys().collect::<Vec<_>>(),
            self.pending_update.len(),
            self.pending_reinsert.len(),
            self.taint,
            self.quirk_marks,
            self.ddl_trail,
            self.reopen_count.min(1),
            self.vacuum_count.min(1),
            self.maint_trail,
            self.last_commit_out_of_order
        ));
        s
    }
}

pub fn val_eq(a: &Val, b: &Val) -> bool {
    match (a, b) {
        (Val::Int(x), Val::Int(y)) => x == y,
        (Val::Int(_), Val::Real(_)) | (Val::Real(_), Val::Int(_)) | (Val::Real(_), Val::Real(_)) => a.as_f64() == b.as_f64(),
        _ => a == b,
    }
}
