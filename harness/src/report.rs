//! Common reporting for BFS-based property checks: aggregates several searches, prints the
//! KNOWN-FINDING / VIOLATION lines the interface asks for, writes evidence and replay files.

use crate::evidence::{write_replay, Evidence};
use crate::explore::{bfs, BfsResult, BfsSpec, Violation};
use crate::findings::Findings;
use serde_json::{json, Value};
use std::collections::{BTreeMap, BTreeSet};
use std::time::{Duration, Instant};

pub struct Search {
    pub label: String,
    pub engine: &'static str,
    pub params: Value,
    pub alphabet_shown: Vec<String>,
    pub max_depth: usize,
    pub budget: usize,
    pub timeout_s: u64,
}

pub struct Outcome {
    pub exit: i32,
}

pub fn wall_cap(tier: &str) -> Duration {
    let s = std::env::var("VERIF_WALL_CAP_S").ok().and_then(|s| s.parse().ok()).unwrap_or(if tier == "quick" { 150 } else { 3000 });
    Duration::from_secs(s)
}

/// Run the searches and report. `extra` lets the caller add property-specific coverage keys.
pub fn run_searches(property: &str, tier: &str, level: &str, searches: Vec<Search>, assumptions: &[&str], rule: &str) -> i32 {
    let findings = Findings::load();
    let texts = findings.texts_for(property);
    let mut ev = Evidence::new(property, tier, level);
    let deadline = Instant::now() + wall_cap(tier);
    let mut total_states = 0usize;
    let mut total_trans = 0usize;
    let mut total_disabled = 0usize;
    let mut per_search = vec![];
    let mut violations: Vec<(String, Value, Violation)> = vec![];
    let mut unstable = 0usize;
    let mut known: BTreeMap<String, (usize, String, Violation, Value)> = BTreeMap::new();
    let mut counters: BTreeMap<String, u64> = BTreeMap::new();
    let mut outcomes: BTreeSet<String> = BTreeSet::new();
    let mut samples: Vec<Value> = vec![];
    let mut machinery: Vec<String> = vec![];
    let mut all_complete = true;
    let mut judged = 0usize;
    let mut tainted = 0usize;
    let mut max_depth_done = 0usize;
    for (si, s) in searches.iter().enumerate() {
        if std::env::var("VERIF_DUMP_PARAMS").is_ok() {
            let _ = std::fs::write(format!("/tmp/params-{property}-{si}.json"), serde_json::to_string(&s.params).unwrap());
            let _ = std::fs::write(format!("/tmp/alphabet-{property}-{si}.txt"), s.alphabet_shown.iter().enumerate().map(|(i, a)| format!("{i}\t{a}")).collect::<Vec<_>>().join("\n"));
        }
        let shown = s.alphabet_shown.clone();
        let show = move |i: usize| shown[i].clone();
        let spec = BfsSpec {
            engine: s.engine,
            params: s.params.clone(),
            alphabet_len: s.alphabet_shown.len(),
            show_op: &show,
            max_depth: s.max_depth,
            budget: s.budget,
            timeout_s: s.timeout_s,
            seed_label: s.label.clone(),
            deadline: Some(deadline),
        };
        let t0 = Instant::now();
        let r: BfsResult = bfs(&spec);
        total_states += r.states;
        total_trans += r.transitions;
        total_disabled += r.disabled;
        judged += r.judged_strictly;
        tainted += r.tainted;
        unstable += r.unstable.len();
        max_depth_done = max_depth_done.max(r.depth_completed);
        if r.capped.is_some() || r.depth_completed < s.max_depth {
            all_complete = false;
        }
        for (k, v) in &r.counters {
            *counters.entry(k.clone()).or_insert(0) += v;
        }
        outcomes.extend(r.outcomes.iter().cloned());
        for sm in r.samples.iter().take(3) {
            samples.push(json!({"search": s.label, "history": sm}));
        }
        for v in &r.violations {
            violations.push((s.label.clone(), s.params.clone(), v.clone()));
        }
        for u in &r.unstable {
            println!("UNSTABLE property={property} search={} case={}", s.label, u.script.join(" ; "));
        }
        for (id, (n, v)) in &r.known {
            let e = known.entry(id.clone()).or_insert_with(|| (0, s.label.clone(), v.clone(), s.params.clone()));
            e.0 += n;
        }
        machinery.extend(r.machinery.iter().cloned());
        per_search.push(json!({
            "search": s.label,
            "alphabet": s.alphabet_shown,
            "max_depth_requested": s.max_depth,
            "depth_completed": r.depth_completed,
            "states": r.states,
            "transitions": r.transitions,
            "disabled_candidates": r.disabled,
            "per_depth_new_states_transitions": r.per_depth.iter().map(|(d, n, t)| json!([d, n, t])).collect::<Vec<_>>(),
            "judged_strictly": r.judged_strictly,
            "not_judged_hazard": r.tainted,
            "known_finding_executions": r.known.iter().map(|(k, v)| (k.clone(), v.0)).collect::<BTreeMap<_, _>>(),
            "violations": r.violations.len(),
            "cap": r.capped,
            "wall_s": (t0.elapsed().as_secs_f64() * 100.0).round() / 100.0,
        }));
        eprintln!(
            "[{property}] {}: depth {}/{} states={} transitions={} disabled={} known={} viol={} {:.1}s{}",
            s.label,
            r.depth_completed,
            s.max_depth,
            r.states,
            r.transitions,
            r.disabled,
            r.known.values().map(|v| v.0).sum::<usize>(),
            r.violations.len(),
            t0.elapsed().as_secs_f64(),
            r.capped.as_ref().map(|c| format!(" CAP: {c}")).unwrap_or_default()
        );
    }

    // known findings: one line per listed finding that was re-observed
    for (id, (n, label, v, params)) in &known {
        if !findings.is_own_finding(property, id) {
            // a finding of another property: these executions are excluded, not reported here
            continue;
        }
        let text = texts.get(id).cloned().unwrap_or_default();
        let path = write_replay(property, &json!({"property": property, "classification": format!("known:{id}"), "engine": searches[0].engine, "search": label, "params": params, "hist": v.hist, "script": v.script, "detail": v.detail}));
        println!("KNOWN-FINDING: property={property} {id} {text} [re-observed in {n} executions; first witness: {} ; replay={path}]", v.script.join(" ; "));
    }
    let mut exit = 0;
    if std::env::var("VERIF_TRIAGE").is_ok() {
        for (_, _, v) in &violations {
            eprintln!("TRIAGE\t{}\t{}", v.detail.lines().next().unwrap_or(""), v.script.join(" ; "));
        }
    }
    for (label, params, v) in violations.iter().take(20) {
        let path = write_replay(property, &json!({"property": property, "classification": "violation", "engine": searches[0].engine, "search": label, "params": params, "hist": v.hist, "script": v.script, "detail": v.detail}));
        println!("VIOLATION property={property} replay={path}");
        println!("  search: {label}\n  history: {}\n  {}", v.script.join(" ; "), v.detail.replace('\n', "\n    "));
        exit = 1;
    }
    if !machinery.is_empty() {
        for m in machinery.iter().take(10) {
            eprintln!("MACHINERY-ERROR property={property}: {m}");
        }
        if exit == 0 {
            exit = 2;
        }
    }
    ev.violations = violations.len();
    ev.set("states", json!(total_states));
    ev.set("transitions", json!(total_trans));
    ev.set("traces_validated_against_impl", json!(total_trans));
    ev.set("evaluations", json!(total_trans));
    ev.set("distinct_nontrivial", json!(outcomes.len()));
    ev.set("rule", json!(rule));
    ev.set("exhaustive", json!(all_complete));
    ev.set("max_depth_completed", json!(max_depth_done));
    ev.set("disabled_candidates_skipped", json!(total_disabled));
    ev.set("executions_judged_strictly", json!(judged));
    ev.set("executions_not_judged_because_a_listed_hazard_fired", json!(tainted));
    ev.set("unstable_failures", json!(unstable));
    ev.set("distinct_observed_outcomes", json!(outcomes.len()));
    ev.set("code_path_counters", json!(counters));
    ev.set("known_findings_reobserved", json!(known.iter().map(|(k, v)| (k.clone(), v.0)).collect::<BTreeMap<_, _>>()));
    ev.set("searches", json!(per_search));
    ev.set("machinery_errors", json!(machinery.len()));
    if samples.is_empty() {
        samples.push(json!("no history beyond the seed state was executed"));
    }
    ev.set("samples", json!(samples));
    for a in assumptions {
        ev.assume(a);
    }
    ev.write();
    eprintln!(
        "[{property}] total: states={total_states} transitions={total_trans} outcomes={} judged={judged} hazard-unjudged={tainted} violations={} exit={exit}",
        outcomes.len(),
        violations.len()
    );
    exit
}
