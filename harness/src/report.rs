//! Common reporting for BFS-based property checks: aggregates several searches, prints the
//! KNOWN-FINDING / VIOLATION lines the interface asks for, writes evidence and replay files.

use crate::evidence::{write_replay, Evidence};
use crate::explore::{bfs, BfsResult, BfsSpec, Violation};
use crate::findings::Findings;
use serde_json::{json, Value};
use std::collections::{BTreeMap, BTreeSet};
use std::time::{Duration, Instant};

pub struct Search {
    pub label: String,
    pub engine: &'static str,
    pub params: Value,
    pub alphabet_shown: Vec<String>,
    pub max_depth: usize,
    pub budget: usize,
    pub timeout_s: u64,
}

/// Findings re-observed by a property-specific run outside the BFS (registered before `run_searches`).
pub static EXTRA_REOBSERVED: std::sync::Mutex<Vec<(String, String)>> = std::sync::Mutex::new(Vec::new());

pub struct Outcome {
    pub exit: i32,
}

pub fn wall_cap(tier: &str) -> Duration {
    let s = std::env::var("VERIF_WALL_CAP_S").ok().and_then(|s| s.parse().ok()).unwrap_or(if tier == "quick" { 600 } else { 3000 });
    Duration::from_secs(s)
}

/// Run the searches and report. `extra` lets the caller add property-specific coverage keys.
pub fn run_searches(property: &str, tier: &str, level: &str, searches: Vec<Search>, assumptions: &[&str], rule: &str) -> i32 {
    let findings = Findings::load();
    let texts = findings.texts_for(property);
    let mut ev = Evidence::new(property, tier, level);
    let deadline = Instant::now() + wall_cap(tier);
    let mut total_states = 0usize;
    let mut total_trans = 0usize;
    let mut total_disabled = 0usize;
    let mut per_search = vec![];
    let mut violations: Vec<(String, Value, Violation)> = vec![];
    let mut unstable = 0usize;
    let mut known: BTreeMap<String, (usize, String, Violation, Value)> = BTreeMap::new();
    let mut counters: BTreeMap<String, u64> = BTreeMap::new();
    let mut outcomes: BTreeSet<String> = BTreeSet::new();
    let mut samples: Vec<Value> = vec![];
    let mut machinery: Vec<String> = vec![];
    let mut all_complete = true;
    let mut judged = 0usize;
    let mut tainted = 0usize;
    let mut max_depth_done = 0usize;
    for (si, s) in searches.iter().enumerate() {
        if std::env::var("VERIF_DUMP_PARAMS").is_ok() {
            let _ = std::fs::write(format!("/tmp/params-{property}-{si}.json"), serde_json::to_string(&s.params).unwrap());
            let _ = std::fs::write(format!("/tmp/alphabet-{property}-{si}.txt"), s.alphabet_shown.iter().enumerate().map(|(i, a)| format!("{i}\t{a}")).collect::<Vec<_>>().join("\n"));
        }
        let shown = s.alphabet_shown.clone();
        let show = move |i: usize| shown[i].clone();
        let spec = BfsSpec {
            engine: s.engine,
            params: s.params.clone(),
            alphabet_len: s.alphabet_shown.len(),
            show_op: &show,
            max_depth: s.max_depth,
            budget: s.budget,
            timeout_s: s.timeout_s,
            seed_label: s.label.clone(),
            // fair share of what is left of the wall-clock cap (time a search does not use rolls over to the later ones)
            deadline: Some(Instant::now() + deadline.saturating_duration_since(Instant::now()) / (searches.len() - si) as u32),
        };
        let t0 = Instant::now();
        let r: BfsResult = bfs(&spec);
        total_states += r.states;
        total_trans += r.transitions;
        total_disabled += r.disabled;
        judged += r.judged_strictly;
        tainted += r.tainted;
        unstable += r.unstable.len();
        max_depth_done = max_depth_done.max(r.depth_completed);
        if r.capped.is_some() || r.depth_completed < s.max_depth {
            all_complete = false;
        }
        for (k, v) in &r.counters {
            *counters.entry(k.clone()).or_insert(0) += v;
        }
        outcomes.extend(r.outcomes.iter().cloned());
        for sm in r.samples.iter().take(3) {
            samples.push(json!({"search": s.label, "history": sm}));
        }
        for v in &r.violations {
            violations.push((s.label.clone(), s.params.clone(), v.clone()));
        }
        for u in &r.unstable {
            println!("UNSTABLE property={property} search={} case={}", s.label, u.script.join(" ; "));
        }
        for (id, (n, v)) in &r.known {
            let e = known.entry(id.clone()).or_insert_with(|| (0, s.label.clone(), v.clone(), s.params.clone()));
            e.0 += n;
        }
        machinery.extend(r.machinery.iter().cloned());
        per_search.push(json!({
            "search": s.label,
            "alphabet": s.alphabet_shown,
            "max_depth_requested": s.max_depth,
            "depth_completed": r.depth_completed,
            "states": r.states,
            "transitions": r.transitions,
            "disabled_candidates": r.disabled,
            "per_depth_new_states_transitions": r.per_depth.iter().map(|(d, n, t)| json!([d, n, t])).collect::<Vec<_>>(),
            "judged_strictly": r.judged_strictly,
            "not_judged_hazard": r.tainted,
            "not_judged_by_hazard": r.tainted_by,
            "known_finding_executions": r.known.iter().map(|(k, v)| (k.clone(), v.0)).collect::<BTreeMap<_, _>>(),
            "violations": r.violations.len(),
            "cap": r.capped,
            "wall_s": (t0.elapsed().as_secs_f64() * 100.0).round() / 100.0,
        }));
        eprintln!(
            "[{property}] {}: depth {}/{} states={} transitions={} disabled={} known={} viol={} {:.1}s{}",
            s.label,
            r.depth_completed,
            s.max_depth,
            r.states,
            r.transitions,
            r.disabled,
            r.known.values().map(|v| v.0).sum::<usize>(),
            r.violations.len(),
            t0.elapsed().as_secs_f64(),
            r.capped.as_ref().map(|c| format!(" CAP: {c}")).unwrap_or_default()
        );
    }

    // known findings: one line per listed finding that was re-observed
    for (id, (n, label, v, params)) in &known {
        if !findings.is_own_finding(property, id) {
            // a finding of another property: these executions are excluded, not reported here
            continue;
        }
        let text = texts.get(id).cloned().unwrap_or_default();
        let path = write_replay(property, &json!({"property": property, "classification": format!("known:{id}"), "engine": searches[0].engine, "search": label, "params": params, "hist": v.hist, "script": v.script, "detail": v.detail}));
        println!("KNOWN-FINDING: property={property} {id} {text} [re-observed in {n} executions; first witness: {} ; replay={path}]", v.script.join(" ; "));
    }
    // listed findings of this property that this run did not reach (smaller tier, or the hazard fired without
    // the engine deviating on the explored histories): still reported, and said to be not re-observed
    let extra = EXTRA_REOBSERVED.lock().map(|g| g.clone()).unwrap_or_default();
    for (id, text) in &texts {
        if let Some((_, w)) = extra.iter().find(|(x, _)| x == id) {
            println!("KNOWN-FINDING: property={property} {id} {text} [re-observed: {w}]");
        } else if !known.contains_key(id) {
            println!("KNOWN-FINDING: property={property} {id} {text} [listed; not re-observed within the bounds of this run]");
        }
    }
    let mut exit = 0;
    if std::env::var("VERIF_TRIAGE").is_ok() {
        for (_, _, v) in &violations {
            eprintln!("TRIAGE\t{}\t{}", v.detail.lines().next().unwrap_or(""), v.script.join(" ; "));
        }
    }
    for (label, params, v) in violations.iter().take(20) {
        let path = write_replay(property, &json!({"property": property, "classification": "violation", "engine": searches[0].engine, "search": label, "params": params, "hist": v.hist, "script": v.script, "detail": v.detail}));
        println!("VIOLATION property={property} replay={path}");
        println!("  search: {label}\n  history: {}\n  {}", v.script.join(" ; "), v.detail.replace('\n', "\n    "));
        exit = 1;
    }
    if !machinery.is_empty() {
        for m in machinery.iter().take(10) {
            eprintln!("MACHINERY-ERROR property={property}: {m}");
        }
        if exit == 0 {
            exit = 2;
        }
    }
    ev.violations = violations.len();
    ev.set("states", json!(total_states));
    ev.set("transitions", json!(total_trans));
    ev.set("traces_validated_against_impl", json!(total_trans));
    ev.set("evaluations", json!(total_trans));
    ev.set("distinct_nontrivial", json!(outcomes.len()));
    ev.set("rule", json!(rule));
    ev.set("exhaustive", json!(all_complete));
    ev.set("max_depth_completed", json!(max_depth_done));
    ev.set("disabled_candidates_skipped", json!(total_disabled));
    ev.set("executions_judged_strictly", json!(judged));
    ev.set("executions_not_judged_because_a_listed_hazard_fired", json!(tainted));
    ev.set("unstable_failures", json!(unstable));
    ev.set("distinct_observed_outcomes", json!(outcomes.len()));
    ev.set("code_path_counters", json!(counters));
    ev.set("known_findings_reobserved", json!(known.iter().map(|(k, v)| (k.clone(), v.0)).collect::<BTreeMap<_, _>>()));
    ev.set("searches", json!(per_search));
    ev.set("machinery_errors", json!(machinery.len()));
    if samples.is_empty() {
        samples.push(json!("no history beyond the seed state was executed"));
    }
    ev.set("samples", json!(samples));
    for a in assumptions {
        ev.assume(a);
    }
    ev.write();
    eprintln!(
        "[{property}] total: states={total_states} transitions={total_trans} outcomes={} judged={judged} hazard-unjudged={tainted} violations={} exit={exit}",
        outcomes.len(),
        violations.len()
    );
    exit
}

// -------------------------------------------------------------------------------------------
// Flat (index-based) exhaustive enumerations, evaluated in chunks by worker subprocesses.

pub struct FlatGroup {
    pub name: String,
    pub size: u64,
    pub chunk: u64,
    pub what: String,
}

#[derive(Debug, Clone, Default, serde::Serialize, serde::Deserialize)]
pub struct FlatChunkReport {
    pub evaluations: u64,
    pub nontrivial: u64,
    pub failures: Vec<String>,
    pub sample: String,
}

/// `classify` maps a failure text to a known-finding id (only honoured when the id is listed for the property).
pub fn run_flat(
    property: &str,
    tier: &str,
    level: &str,
    engine: &'static str,
    params: Value,
    groups: Vec<FlatGroup>,
    timeout_s: u64,
    assumptions: &[&str],
    rule: &str,
    classify: &dyn Fn(&str) -> Option<String>,
) -> i32 {
    use crate::par::{run_cases, CaseRes};
    let findings = Findings::load();
    let listed = findings.ids_for(property);
    let texts = findings.texts_for(property);
    let mut ev = Evidence::new(property, tier, level);
    let mut total_eval = 0u64;
    let mut total_nontrivial = 0u64;
    let mut samples: Vec<Value> = vec![];
    let mut per_group = vec![];
    let mut violations: Vec<String> = vec![];
    let mut known: BTreeMap<String, (usize, String)> = BTreeMap::new();
    let mut machinery: Vec<String> = vec![];
    let mut exhaustive = true;
    let deadline = Instant::now() + wall_cap(tier);
    let side = crate::sqldrv::scratch_root().join("side.txt");
    let _ = std::fs::create_dir_all(crate::sqldrv::scratch_root());
    for g in &groups {
        let t0 = Instant::now();
        if Instant::now() > deadline {
            exhaustive = false;
            per_group.push(json!({"group": g.name, "what": g.what, "size": g.size, "skipped": "wall-clock cap reached"}));
            continue;
        }
        let mut cases = vec![];
        let mut st = 0;
        while st < g.size {
            let en = (st + g.chunk).min(g.size);
            cases.push(json!({"group": g.name, "start": st, "end": en}));
            st = en;
        }
        // the cases of a group run in batches so that the wall-clock cap can stop a group in the middle; what was
        // covered is then reported as a prefix of the group's index space
        let batch = 16 * 64;
        let mut res: Vec<CaseRes> = vec![];
        let mut covered_cases = 0usize;
        for b in cases.chunks(batch) {
            if Instant::now() > deadline {
                break;
            }
            res.extend(run_cases(engine, &params, b, timeout_s));
            covered_cases += b.len();
        }
        let capped_at: Option<u64> = if covered_cases < cases.len() {
            exhaustive = false;
            Some(cases.get(covered_cases).map(|c| c["start"].as_u64().unwrap_or(0)).unwrap_or(g.size))
        } else {
            None
        };
        let cases = cases[..covered_cases].to_vec();
        let mut g_eval = 0u64;
        let mut g_non = 0u64;
        let mut g_fail = 0usize;
        let mut named_bad = 0usize;
        let mut handle_failure = |f: String, violations: &mut Vec<String>, known: &mut BTreeMap<String, (usize, String)>| {
            if std::env::var("VERIF_TRIAGE").is_ok() {
                eprintln!("TRIAGE\t{}", f.chars().take(400).collect::<String>());
            }
            match classify(&f) {
                Some(id) if listed.contains(&id) => {
                    let e = known.entry(id).or_insert((0, f.clone()));
                    e.0 += 1;
                }
                _ => violations.push(f),
            }
        };
        for (case, r) in cases.iter().zip(res.into_iter()) {
            match r {
                CaseRes::Done(v) => {
                    let rep: FlatChunkReport = serde_json::from_value(v).unwrap_or_default();
                    g_eval += rep.evaluations;
                    g_non += rep.nontrivial;
                    if samples.len() < 12 && !rep.sample.is_empty() && case["start"] == 0 {
                        samples.push(json!({"group": g.name, "case": rep.sample}));
                    }
                    for f in rep.failures {
                        g_fail += 1;
                        handle_failure(format!("[{}] {}", g.name, f), &mut violations, &mut known);
                    }
                }
                CaseRes::Hung | CaseRes::Crashed(_) => {
                    if let CaseRes::Crashed(m) = &r {
                        if m.contains("harness-side panic") {
                            machinery.push(format!("{}: {m}", g.name));
                            continue;
                        }
                    }
                    // pin down: one index at a time, the worker names each input in the side file before evaluating it.
                    // Bounded: a single input gets at most 15 s, and once three hanging / killing inputs of a group have
                    // been named the remaining bad chunks are reported as chunks (a change that makes a whole class of
                    // inputs hang must not turn the check into an hours-long run).
                    let (s0, e0) = (case["start"].as_u64().unwrap(), case["end"].as_u64().unwrap());
                    if named_bad >= 3 {
                        g_fail += 1;
                        let kind = if matches!(r, CaseRes::Hung) { "HANG (watchdog)" } else { "PROCESS DEATH" };
                        handle_failure(format!("[{}] {kind} somewhere in inputs [{s0}, {e0}) (not pinned down: three bad inputs of this group are already named)", g.name), &mut violations, &mut known);
                        continue;
                    }
                    for idx in s0..e0 {
                        if named_bad >= 3 {
                            break;
                        }
                        let _ = std::fs::remove_file(&side);
                        let c1 = json!({"group": g.name, "start": idx, "end": idx + 1, "single": true, "side": side.to_string_lossy()});
                        let r1 = run_cases(engine, &params, &[c1], timeout_s.min(15));
                        match &r1[0] {
                            CaseRes::Done(v) => {
                                let rep: FlatChunkReport = serde_json::from_value(v.clone()).unwrap_or_default();
                                g_eval += rep.evaluations;
                                g_non += rep.nontrivial;
                                for f in rep.failures {
                                    g_fail += 1;
                                    handle_failure(format!("[{}] {}", g.name, f), &mut violations, &mut known);
                                }
                            }
                            other => {
                                let what = std::fs::read_to_string(&side).unwrap_or_else(|_| format!("input #{idx}"));
                                let kind = match other {
                                    CaseRes::Hung => "HANG (watchdog)".to_string(),
                                    CaseRes::Crashed(m) => format!("PROCESS DEATH ({m})"),
                                    _ => String::new(),
                                };
                                g_fail += 1;
                                g_eval += 1;
                                named_bad += 1;
                                handle_failure(format!("[{}] {kind} on: {what}", g.name), &mut violations, &mut known);
                            }
                        }
                    }
                }
            }
        }
        total_eval += g_eval;
        total_nontrivial += g_non;
        per_group.push(json!({"group": g.name, "what": g.what, "size": g.size, "evaluations": g_eval, "nontrivial": g_non, "failures": g_fail, "wall_s": (t0.elapsed().as_secs_f64()*100.0).round()/100.0, "cap": capped_at.map(|c| format!("wall-clock cap reached: inputs [0, {c}) of {} covered completely, the rest not run", g.size))}));
        eprintln!("[{property}] {}: {} inputs, {} evaluations, {} failures, {:.1}s{}", g.name, g.size, g_eval, g_fail, t0.elapsed().as_secs_f64(), capped_at.map(|c| format!(" CAP: covered [0, {c})")).unwrap_or_default());
    }
    for (id, (n, first)) in &known {
        println!("KNOWN-FINDING: property={property} {id} {} [re-observed {n} times; first: {}]", texts.get(id).cloned().unwrap_or_default(), first.chars().take(300).collect::<String>());
    }
    for (id, text) in &texts {
        if !known.contains_key(id) {
            println!("KNOWN-FINDING: property={property} {id} {text} [listed; not re-observed within the bounds of this run]");
        }
    }
    let mut exit = 0;
    for v in violations.iter().take(20) {
        let path = write_replay(property, &json!({"property": property, "classification": "violation", "engine": engine, "params": params, "detail": v}));
        println!("VIOLATION property={property} replay={path}");
        println!("  {}", v.chars().take(600).collect::<String>());
        exit = 1;
    }
    if !machinery.is_empty() {
        for m in machinery.iter().take(10) {
            eprintln!("MACHINERY-ERROR property={property}: {m}");
        }
        if exit == 0 {
            exit = 2;
        }
    }
    ev.violations = violations.len();
    ev.set("evaluations", json!(total_eval));
    ev.set("distinct_nontrivial", json!(total_nontrivial));
    ev.set("rule", json!(rule));
    ev.set("exhaustive", json!(exhaustive));
    ev.set("groups", json!(per_group));
    ev.set("known_findings_reobserved", json!(known.iter().map(|(k, v)| (k.clone(), v.0)).collect::<BTreeMap<_, _>>()));
    if samples.is_empty() {
        samples.push(json!("no sample recorded"));
    }
    ev.set("samples", json!(samples));
    for a in assumptions {
        ev.assume(a);
    }
    ev.write();
    eprintln!("[{property}] total: evaluations={total_eval} nontrivial={total_nontrivial} violations={} known={} exit={exit}", violations.len(), known.len());
    exit
}
