fn main() { println!("hello"); }
