mod engines;
mod evidence;
mod explore;
mod findings;
mod model;
mod par;
mod probe;
mod props_comp;
mod props_crash;
mod props_flat;
mod props_plan;
mod props_seq;
mod report;
mod sqldrv;
mod sqlmodel;

fn lookup(engine: &str) -> Option<par::WorkerFn> {
    match engine {
        "seq" => Some(engines::seq::worker),
        "plan" => Some(engines::plan::worker),
        "cfg" => Some(engines::cfg::worker),
        "crash" => Some(engines::crash::worker),
        "wire" => Some(engines::wire::worker),
        "wal" => Some(engines::wal::worker),
        "btree" => Some(engines::btree::worker),
        "tuple" => Some(engines::tuple::worker),
        "values" => Some(engines::values::worker),
        "sqlenum" => Some(engines::sqlenum::worker),
        "stmt" => Some(engines::stmt::worker),
        _ => None,
    }
}

fn check(prop: &str, tier: &str) -> i32 {
    unsafe { std::env::set_var("VERIF_TIER", tier) };
    match prop {
        "C01" => props_crash::c01(tier),
        "C02" => props_crash::c02(tier),
        "C08" => props_crash::c08(tier),
        "C03" => props_seq::c03(tier),
        "C06" => props_plan::c06(tier),
        "C12" => props_plan::c12(tier),
        "C20" => props_flat::c20(tier),
        "C18" => props_flat::c18(tier),
        "C05" => props_flat::c05(tier),
        "C16" => props_flat::c16(tier),
        "C19" => props_flat::c19(tier),
        "C17" => props_comp::c17(tier),
        "C10" => props_comp::c10(tier),
        "C11" => props_comp::c11(tier),
        "C04" => props_seq::c04(tier),
        "C07" => props_seq::c07(tier),
        "C09" => props_seq::c09(tier),
        "C13" => props_seq::c13(tier),
        "C15" => props_seq::c15(tier),
        _ => {
            eprintln!("no check for {prop}");
            2
        }
    }
}

fn replay(path: &str) -> i32 {
    let text = std::fs::read_to_string(path).expect("read replay file");
    let v: serde_json::Value = serde_json::from_str(&text).expect("parse replay file");
    let engine = v["engine"].as_str().unwrap_or("");
    let Some(f) = lookup(engine) else {
        eprintln!("unknown engine {engine}");
        return 2;
    };
    println!("replaying {} case of {} (engine {engine})", v["classification"], v["property"]);
    if let Some(s) = v["script"].as_array() {
        for l in s {
            println!("  {}", l.as_str().unwrap_or(""));
        }
    }
    let case = serde_json::json!({"hist": v["hist"], "case": v["case"]});
    let r = f(&v["params"], &case);
    println!("status: {}", r["status"]);
    println!("{}", r["detail"].as_str().unwrap_or(""));
    if r["status"] == "violation" {
        println!("VIOLATION property={} replay={path}", v["property"].as_str().unwrap_or(""));
        1
    } else {
        0
    }
}

fn main() {
    let args: Vec<String> = std::env::args().collect();
    sqldrv::install_panic_counter();
    let code = match args.get(1).map(|s| s.as_str()) {
        Some("--worker") => {
            let c = par::worker_main(&args[2..], lookup);
            sqldrv::cleanup_scratch();
            std::process::exit(c);
        }
        Some("probe") => probe::run(&args[2..]),
        Some("check") => check(&args[2], args.get(3).map(|s| s.as_str()).unwrap_or("quick")),
        Some("replay") => replay(&args[2]),
        Some("run-json") => {
            // run-json <engine> <params json> <case json>
            let f = lookup(&args[2]).expect("engine");
            let params: serde_json::Value = serde_json::from_str(&args[3]).unwrap();
            let case: serde_json::Value = serde_json::from_str(&args[4]).unwrap();
            println!("{}", serde_json::to_string_pretty(&f(&params, &case)).unwrap());
            0
        }
        Some("run-case") => {
            // run-case <engine> <params.json> <hist as JSON list>
            let f = lookup(&args[2]).expect("engine");
            let params: serde_json::Value = serde_json::from_str(&std::fs::read_to_string(&args[3]).unwrap()).unwrap();
            let hist: serde_json::Value = serde_json::from_str(&args[4]).unwrap();
            let r = f(&params, &serde_json::json!({"hist": hist}));
            println!("status={} findings={} reproduced={} stop={}\nkey={}\n{}\ncounters={}", r["status"], r["findings"], r["reproduced"], r["stop"], r["key"].as_str().unwrap_or(""), r["detail"].as_str().unwrap_or(""), r["counters"]);
            0
        }
        _ => {
            eprintln!("usage: harness check <Cxx> <quick|thorough> | replay <file> | probe <script>");
            2
        }
    };
    sqldrv::cleanup_scratch();
    std::process::exit(code);
}
