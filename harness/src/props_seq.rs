//! Property checks that ride on the `seq` engine (C03 C04 C07 C09 C13 C15 ...).

use crate::engines::seq::SeqParams;
use crate::findings::Findings;
use crate::model::*;
use crate::report::{run_searches, Search};
use crate::sqldrv::{Cfg, ErrClass, Val};

fn i(v: i128) -> Val {
    Val::Int(v)
}

pub fn t_plain() -> TableDef {
    TableDef::simple("t", &[("k", ColTy::Int), ("v", ColTy::Int)])
}
pub fn t_unique() -> TableDef {
    t_plain().with_unique(&["k"])
}
fn ins(table: &str, rows: &[(i128, i128)]) -> Stmt {
    Stmt::Insert { table: table.into(), rows: rows.iter().map(|(a, b)| vec![i(*a), i(*b)]).collect() }
}
fn del(table: &str, k: i128) -> Stmt {
    Stmt::Delete { table: table.into(), pred: Some(("k".into(), i(k))) }
}
fn upd(table: &str, k: i128, v: i128) -> Stmt {
    Stmt::Update { table: table.into(), set: vec![("v".into(), i(v))], pred: Some(("k".into(), i(k))) }
}
fn sel(table: &str) -> Stmt {
    Stmt::Select { table: table.into(), pred: None }
}
fn selk(table: &str, k: i128) -> Stmt {
    Stmt::Select { table: table.into(), pred: Some(("k".into(), i(k))) }
}
fn unknown_table() -> Stmt {
    Stmt::Failing { sql: "INSERT INTO nosuch VALUES (1, 1)".into(), class: ErrClass::Bind }
}

fn mk_search(property: &str, label: &str, cfg: Cfg, prefix: Vec<Op>, alphabet: Vec<Op>, depth: usize, budget: usize, f: impl Fn(&mut SeqParams)) -> Search {
    let findings = Findings::load();
    let mut p = SeqParams {
        property: property.into(),
        cfg,
        prefix,
        alphabet: alphabet.clone(),
        hazards: findings.ids_for(property).into_iter().collect(),
        audit_end: true,
        reopen_end: false,
        vacuum_end: false,
        reopen_cfg: None,
    };
    f(&mut p);
    Search {
        label: label.into(),
        engine: "seq",
        params: serde_json::to_value(&p).unwrap(),
        alphabet_shown: alphabet.iter().map(|o| o.show()).collect(),
        max_depth: depth,
        budget,
        timeout_s: 60,
    }
}

pub fn c03(tier: &str) -> i32 {
    let quick = tier == "quick";
    let prefix = vec![Op::Auto(Stmt::CreateTable(t_unique())), Op::Auto(ins("t", &[(1, 10)]))];
    let mut alpha = vec![];
    for s in [1u8, 2] {
        alpha.push(Op::Begin(s));
        alpha.push(Op::In(s, ins("t", &[(2, 20)])));
        alpha.push(Op::In(s, del("t", 1)));
        alpha.push(Op::Commit(s));
        alpha.push(Op::Rollback(s));
    }
    alpha.push(Op::In(1, ins("t", &[(3, 30), (1, 99)]))); // duplicate in second position: whole statement must fail
    alpha.push(Op::In(1, unknown_table()));
    alpha.push(Op::In(1, Stmt::CreateTable(TableDef::simple("t2", &[("a", ColTy::Int)]))));
    alpha.push(Op::In(1, Stmt::Insert { table: "t2".into(), rows: vec![vec![i(7)]] }));
    alpha.push(Op::DropSession(1));
    alpha.push(Op::Auto(ins("t", &[(2, 20)])));
    alpha.push(Op::Auto(del("t", 1)));
    alpha.push(Op::Auto(ins("t", &[(3, 30), (1, 99)])));
    alpha.push(Op::Batch(vec![ins("t", &[(4, 40)]), unknown_table()]));
    alpha.push(Op::Batch(vec![ins("t", &[(4, 40)]), ins("t", &[(4, 41)])]));
    alpha.push(Op::Batch(vec![ins("t", &[(4, 40)]), del("t", 1)]));
    let mut searches = vec![mk_search("C03", "insert/delete/ddl core on t(k UNIQUE)", Cfg::default(), prefix, alpha, if quick { 6 } else { 8 }, if quick { 100_000 } else { 3_000_000 }, |_| {})];

    // updates: table without an index (UPDATE on an indexed table is a listed finding)
    let prefix2 = vec![Op::Auto(Stmt::CreateTable(t_plain())), Op::Auto(ins("t", &[(1, 10), (2, 20)]))];
    let mut a2 = vec![];
    for s in [1u8, 2] {
        a2.push(Op::Begin(s));
        a2.push(Op::In(s, upd("t", 1, 11 + s as i128)));
        a2.push(Op::In(s, del("t", 2)));
        a2.push(Op::In(s, sel("t")));
        a2.push(Op::Commit(s));
        a2.push(Op::Rollback(s));
    }
    a2.push(Op::Auto(upd("t", 1, 15)));
    a2.push(Op::Auto(upd("t", 2, 25)));
    a2.push(Op::Auto(Stmt::Update { table: "t".into(), set: vec![("v".into(), i(0))], pred: None }));
    a2.push(Op::Batch(vec![upd("t", 1, 16), unknown_table()]));
    searches.push(mk_search("C03", "update/delete on t(k,v) without index", Cfg::default(), prefix2, a2, if quick { 6 } else { 8 }, if quick { 100_000 } else { 2_000_000 }, |_| {}));

    run_searches(
        "C03",
        tier,
        "model_checking",
        searches,
        &[
            "statement-level interleavings only: a statement runs to completion before the next one is issued",
            "values and keys are drawn from a 3-4 element alphabet; literals appear in a fixed order",
            "histories on which a listed known finding's hazard fires are judged only up to the hazard step",
        ],
        "BFS over operation sequences of two sessions + autocommit + batches, deduplicated on the reference model's multi-version state; an outcome is the digest of every result the engine returned along the history",
    )
}

pub fn c04(tier: &str) -> i32 {
    let quick = tier == "quick";
    let mut searches = vec![];
    for (label, def) in [("t(k,v) without index (sequential scans)", t_plain()), ("t(k UNIQUE,v) (index scans for k = c)", t_unique())] {
        let indexed = !def.uniques.is_empty();
        let prefix = vec![Op::Auto(Stmt::CreateTable(def.clone())), Op::Auto(ins("t", &[(1, 10), (2, 20)]))];
        let mut alpha = vec![];
        let nsess: u8 = if quick { 2 } else { 3 };
        for s in 1..=nsess {
            alpha.push(Op::Begin(s));
            alpha.push(Op::In(s, sel("t")));
            alpha.push(Op::In(s, selk("t", 1)));
            alpha.push(Op::In(s, selk("t", 3)));
            alpha.push(Op::In(s, ins("t", &[(3, 30 + s as i128)])));
            alpha.push(Op::In(s, del("t", 1)));
            if !indexed {
                alpha.push(Op::In(s, upd("t", 2, 20 + s as i128)));
            }
            alpha.push(Op::Commit(s));
            alpha.push(Op::Rollback(s));
        }
        alpha.push(Op::Auto(ins("t", &[(4, 40)])));
        alpha.push(Op::Auto(del("t", 2)));
        alpha.push(Op::Auto(sel("t")));
        let depth = if quick { 6 } else { 8 };
        searches.push(mk_search("C04", label, Cfg::default(), prefix, alpha, depth, if quick { 150_000 } else { 6_000_000 }, |_| {}));
    }
    run_searches(
        "C04",
        tier,
        "model_checking",
        searches,
        &[
            "statement-level interleavings only (a statement runs to completion before the caller continues), so every interleaving of the sessions' statements is one sequence of the search",
            "2 (quick) or 3 (thorough) concurrent sessions plus autocommit statements over rows forced to collide on keys 1,2,3",
            "histories on which a listed known finding's hazard fires are judged only up to the hazard step",
        ],
        "BFS over all interleavings of session statements (begin/read all/read by key/insert/delete/update/commit/rollback) and autocommit writers; every read result is compared with the snapshot-isolation model; an outcome is the digest of all results along the history",
    )
}
