//! Property checks that ride on the `seq` engine (C03 C04 C07 C09 C13 C15 ...).

use crate::engines::seq::SeqParams;
use crate::findings::Findings;
use crate::model::*;
use crate::report::{run_searches, Search};
use crate::sqldrv::{Cfg, ErrClass, Val};

fn i(v: i128) -> Val {
    Val::Int(v)
}

pub fn t_plain() -> TableDef {
    TableDef::simple("t", &[("k", ColTy::Int), ("v", ColTy::Int)])
}
pub fn t_unique() -> TableDef {
    t_plain().with_unique(&["k"])
}
fn ins(table: &str, rows: &[(i128, i128)]) -> Stmt {
    Stmt::Insert { table: table.into(), rows: rows.iter().map(|(a, b)| vec![i(*a), i(*b)]).collect() }
}
fn del(table: &str, k: i128) -> Stmt {
    Stmt::Delete { table: table.into(), pred: Some(("k".into(), i(k))) }
}
fn upd(table: &str, k: i128, v: i128) -> Stmt {
    Stmt::Update { table: table.into(), set: vec![("v".into(), i(v))], pred: Some(("k".into(), i(k))) }
}
fn sel(table: &str) -> Stmt {
    Stmt::Select { table: table.into(), pred: None }
}
fn selk(table: &str, k: i128) -> Stmt {
    Stmt::Select { table: table.into(), pred: Some(("k".into(), i(k))) }
}
fn unknown_table() -> Stmt {
    Stmt::Failing { sql: "INSERT INTO nosuch VALUES (1, 1)".into(), class: ErrClass::Bind }
}

pub fn mk_search(property: &str, label: &str, cfg: Cfg, prefix: Vec<Op>, alphabet: Vec<Op>, depth: usize, budget: usize, f: impl Fn(&mut SeqParams)) -> Search {
    let findings = Findings::load();
    let mut p = SeqParams {
        property: property.into(),
        cfg,
        prefix,
        alphabet: alphabet.clone(),
        hazards: findings.ids_for(property).into_iter().collect(),
        audit_end: true,
        reopen_end: false,
        vacuum_end: false,
        reopen_cfg: None,
        oom_tolerant: false,
        vacuum_with_sessions: false,
        census_end: false,
    };
    f(&mut p);
    Search {
        label: label.into(),
        engine: "seq",
        params: serde_json::to_value(&p).unwrap(),
        alphabet_shown: alphabet.iter().map(|o| o.show()).collect(),
        max_depth: depth,
        budget,
        timeout_s: 60,
    }
}

pub fn c03(tier: &str) -> i32 {
    let quick = tier == "quick";
    let prefix = vec![Op::Auto(Stmt::CreateTable(t_unique())), Op::Auto(ins("t", &[(1, 10)]))];
    let mut alpha = vec![];
    for s in [1u8, 2] {
        alpha.push(Op::Begin(s));
        alpha.push(Op::In(s, ins("t", &[(2, 20)])));
        alpha.push(Op::In(s, del("t", 1)));
        alpha.push(Op::Commit(s));
        alpha.push(Op::Rollback(s));
    }
    alpha.push(Op::In(1, ins("t", &[(3, 30), (1, 99)]))); // duplicate in second position: whole statement must fail
    alpha.push(Op::In(1, unknown_table()));
    alpha.push(Op::In(1, Stmt::CreateTable(TableDef::simple("t2", &[("a", ColTy::Int)]))));
    alpha.push(Op::In(1, Stmt::Insert { table: "t2".into(), rows: vec![vec![i(7)]] }));
    alpha.push(Op::DropSession(1));
    alpha.push(Op::Auto(ins("t", &[(2, 20)])));
    alpha.push(Op::Auto(del("t", 1)));
    alpha.push(Op::Auto(ins("t", &[(3, 30), (1, 99)])));
    alpha.push(Op::Batch(vec![ins("t", &[(4, 40)]), unknown_table()]));
    alpha.push(Op::Batch(vec![ins("t", &[(4, 40)]), ins("t", &[(4, 41)])]));
    alpha.push(Op::Batch(vec![ins("t", &[(4, 40)]), del("t", 1)]));
    // every history without an open session is additionally followed by clean close + reopen + fresh read: what a rollback,
    // a failed statement or a failed batch left invisible must stay invisible when only the file is left
    let mut searches = vec![mk_search("C03", "insert/delete/ddl core on t(k UNIQUE)", Cfg::default(), prefix, alpha, if quick { 6 } else { 8 }, if quick { 100_000 } else { 3_000_000 }, |p| p.reopen_end = true)];

    // the same core with the transaction ids shifted by 1..7 (read-only statements in front): what hides a rolled-back
    // transaction after a reopen is a bitmap, so byte and bit position of its id matter
    {
        let prefix_c = vec![Op::Auto(Stmt::CreateTable(t_unique())), Op::Auto(ins("t", &[(1, 10)]))];
        let alpha_c = vec![
            Op::Begin(1),
            Op::In(1, ins("t", &[(2, 20)])),
            Op::In(1, del("t", 1)),
            Op::Commit(1),
            Op::Rollback(1),
            Op::DropSession(1),
            Op::Auto(ins("t", &[(3, 30), (1, 99)])),
            Op::Batch(vec![ins("t", &[(4, 40)]), unknown_table()]),
            Op::Auto(ins("t", &[(5, 50)])),
        ];
        for off in 1..8usize {
            let mut pre = prefix_c.clone();
            for _ in 0..off {
                pre.push(Op::Auto(sel("t")));
            }
            searches.push(mk_search("C03", &format!("core with transaction ids shifted by {off}: rollback, session drop, failed statement and failed batch, then close + reopen"), Cfg::default(), pre, alpha_c.clone(), if quick { 4 } else { 6 }, if quick { 20_000 } else { 1_000_000 }, |p| p.reopen_end = true));
        }
    }
    // updates: table without an index (UPDATE on an indexed table is a listed finding)
    let prefix2 = vec![Op::Auto(Stmt::CreateTable(t_plain())), Op::Auto(ins("t", &[(1, 10), (2, 20)]))];
    let mut a2 = vec![];
    for s in [1u8, 2] {
        a2.push(Op::Begin(s));
        a2.push(Op::In(s, upd("t", 1, 11 + s as i128)));
        if s == 1 {
            // a row inserted AND updated by the same transaction (a version chain whose every version is its own)
            a2.push(Op::In(s, ins("t", &[(3, 30)])));
            a2.push(Op::In(s, upd("t", 3, 31)));
        }
        a2.push(Op::In(s, del("t", 2)));
        a2.push(Op::In(s, sel("t")));
        a2.push(Op::Commit(s));
        a2.push(Op::Rollback(s));
    }
    a2.push(Op::Auto(upd("t", 1, 15)));
    a2.push(Op::Auto(upd("t", 2, 25)));
    a2.push(Op::Auto(Stmt::Update { table: "t".into(), set: vec![("v".into(), i(0))], pred: None }));
    a2.push(Op::Batch(vec![upd("t", 1, 16), unknown_table()]));
    searches.push(mk_search("C03", "update/delete on t(k,v) without index", Cfg::default(), prefix2, a2, if quick { 6 } else { 8 }, if quick { 100_000 } else { 2_000_000 }, |p| p.reopen_end = true));

    {
        // rollback / failed commit of a session whose transaction VACUUM aborted under it; with reopen at the end
        let prefix3 = vec![Op::Auto(Stmt::CreateTable(t_plain())), Op::Auto(ins("t", &[(1, 10)]))];
        let a3 = vec![
            Op::Begin(1),
            Op::In(1, ins("t", &[(4, 40)])),
            Op::In(1, ins("t", &[(5, 50)])),
            Op::In(1, sel("t")),
            Op::Commit(1),
            Op::Rollback(1),
            Op::DropSession(1),
            Op::Auto(sel("t")),
            Op::Vacuum,
            Op::Reopen,
        ];
        searches.push(mk_search("C03", "a session whose transaction is aborted by VACUUM goes on and ends by commit (must fail), rollback or drop; reopen", Cfg::default(), prefix3, a3, if quick { 5 } else { 7 }, if quick { 50_000 } else { 2_000_000 }, |p| {
            p.vacuum_with_sessions = true;
            p.reopen_end = true;
        }));
    }
    run_searches(
        "C03",
        tier,
        "model_checking",
        searches,
        &[
            "statement-level interleavings only: a statement runs to completion before the next one is issued",
            "values and keys are drawn from a 3-4 element alphabet; literals appear in a fixed order",
            "histories on which a listed known finding's hazard fires are judged only up to the hazard step",
        ],
        "BFS over operation sequences of two sessions + autocommit + batches, deduplicated on the reference model's multi-version state; an outcome is the digest of every result the engine returned along the history",
    )
}

pub fn c04(tier: &str) -> i32 {
    let quick = tier == "quick";
    let mut searches = vec![];
    for (label, def) in [("t(k,v) without index (sequential scans)", t_plain()), ("t(k UNIQUE,v) (index scans for k = c)", t_unique())] {
        let indexed = !def.uniques.is_empty();
        let prefix = vec![Op::Auto(Stmt::CreateTable(def.clone())), Op::Auto(ins("t", &[(1, 10), (2, 20)]))];
        let mut alpha = vec![];
        let nsess: u8 = if quick { 2 } else { 3 };
        for s in 1..=nsess {
            alpha.push(Op::Begin(s));
            alpha.push(Op::In(s, sel("t")));
            alpha.push(Op::In(s, selk("t", 1)));
            alpha.push(Op::In(s, selk("t", 3)));
            alpha.push(Op::In(s, ins("t", &[(3, 30 + s as i128)])));
            alpha.push(Op::In(s, del("t", 1)));
            if !indexed {
                alpha.push(Op::In(s, upd("t", 2, 20 + s as i128)));
                if s == 1 {
                    // update of the row this session inserted itself: a version chain written by one transaction
                    alpha.push(Op::In(s, upd("t", 3, 39)));
                }
            }
            alpha.push(Op::Commit(s));
            alpha.push(Op::Rollback(s));
        }
        alpha.push(Op::Auto(ins("t", &[(4, 40)])));
        alpha.push(Op::Auto(del("t", 2)));
        alpha.push(Op::Auto(sel("t")));
        if !indexed {
            // gives the row that sessions delete an update history (own-delete visibility walks the version chain)
            alpha.push(Op::Auto(upd("t", 1, 15)));
        }
        let depth = if quick { 6 } else { 8 };
        searches.push(mk_search("C04", label, Cfg::default(), prefix, alpha, depth, if quick { 150_000 } else { 6_000_000 }, |_| {}));
    }
    run_searches(
        "C04",
        tier,
        "model_checking",
        searches,
        &[
            "statement-level interleavings only (a statement runs to completion before the caller continues), so every interleaving of the sessions' statements is one sequence of the search",
            "2 (quick) or 3 (thorough) concurrent sessions plus autocommit statements over rows forced to collide on keys 1,2,3",
            "histories on which a listed known finding's hazard fires are judged only up to the hazard step",
        ],
        "BFS over all interleavings of session statements (begin/read all/read by key/insert/delete/update/commit/rollback) and autocommit writers; every read result is compared with the snapshot-isolation model; an outcome is the digest of all results along the history",
    )
}

fn insv(table: &str, row: Vec<Val>) -> Stmt {
    Stmt::Insert { table: table.into(), rows: vec![row] }
}

pub fn c07(tier: &str) -> i32 {
    let quick = tier == "quick";
    let mut searches = vec![];
    // A: single-column UNIQUE + NOT NULL declared in CREATE TABLE
    {
        let def = t_unique().with_not_null("v");
        let prefix = vec![Op::Auto(Stmt::CreateTable(def)), Op::Auto(ins("t", &[(1, 10)]))];
        let mut alpha = vec![
            Op::Auto(ins("t", &[(1, 11)])),
            Op::Auto(ins("t", &[(2, 20)])),
            Op::Auto(insv("t", vec![Val::Null, i(30)])),
            Op::Auto(insv("t", vec![i(3), Val::Null])),
            Op::Auto(ins("t", &[(3, 30), (2, 21)])),
            Op::Auto(del("t", 1)),
            Op::Auto(del("t", 2)),
            Op::Auto(Stmt::Update { table: "t".into(), set: vec![("k".into(), i(2))], pred: Some(("k".into(), i(1))) }),
            Op::Vacuum,
        ];
        for s in [1u8, 2] {
            alpha.push(Op::Begin(s));
            alpha.push(Op::In(s, ins("t", &[(2, 20 + s as i128)])));
            alpha.push(Op::In(s, ins("t", &[(1, 10 + s as i128)])));
            alpha.push(Op::In(s, del("t", 1)));
            alpha.push(Op::Commit(s));
            alpha.push(Op::Rollback(s));
        }
        searches.push(mk_search("C07", "t(k UNIQUE, v NOT NULL) declared in CREATE TABLE", Cfg::default(), prefix, alpha, if quick { 5 } else { 7 }, if quick { 120_000 } else { 4_000_000 }, |_| {}));
    }
    // B: constraint added by CREATE UNIQUE INDEX on a populated table
    {
        let prefix = vec![Op::Auto(Stmt::CreateTable(t_plain())), Op::Auto(ins("t", &[(1, 10)]))];
        let alpha = vec![
            Op::Auto(Stmt::CreateUniqueIndex { name: "ix".into(), table: "t".into(), cols: vec!["k".into()] }),
            Op::Auto(Stmt::AddUnique { table: "t".into(), name: "uq".into(), cols: vec!["k".into()] }),
            Op::Auto(ins("t", &[(1, 11)])),
            Op::Auto(ins("t", &[(2, 20)])),
            Op::Auto(del("t", 1)),
            Op::Begin(1),
            Op::In(1, ins("t", &[(2, 21)])),
            Op::In(1, Stmt::CreateUniqueIndex { name: "ix".into(), table: "t".into(), cols: vec!["k".into()] }),
            Op::Commit(1),
            Op::Rollback(1),
            Op::Vacuum,
        ];
        searches.push(mk_search("C07", "UNIQUE added by CREATE UNIQUE INDEX on populated t(k,v)", Cfg::default(), prefix, alpha, if quick { 5 } else { 7 }, if quick { 60_000 } else { 2_000_000 }, |_| {}));
    }
    // C: two-column constraint
    {
        let def = TableDef::simple("m", &[("a", ColTy::Int), ("b", ColTy::Int)]).with_unique(&["a", "b"]);
        let prefix = vec![Op::Auto(Stmt::CreateTable(def)), Op::Auto(ins("m", &[(1, 1)]))];
        let mut alpha = vec![
            Op::Auto(ins("m", &[(1, 1)])),
            Op::Auto(ins("m", &[(1, 2)])),
            Op::Auto(ins("m", &[(2, 1)])),
            Op::Auto(insv("m", vec![i(1), Val::Null])),
            Op::Auto(Stmt::Delete { table: "m".into(), pred: Some(("b".into(), i(1))) }),
            Op::Vacuum,
        ];
        alpha.push(Op::Begin(1));
        alpha.push(Op::In(1, ins("m", &[(1, 2)])));
        alpha.push(Op::In(1, Stmt::Delete { table: "m".into(), pred: Some(("a".into(), i(1))) }));
        alpha.push(Op::Commit(1));
        alpha.push(Op::Rollback(1));
        searches.push(mk_search("C07", "m(a,b) UNIQUE(a,b)", Cfg::default(), prefix, alpha, if quick { 5 } else { 7 }, if quick { 60_000 } else { 2_000_000 }, |_| {}));
    }
    // E: composite key with a separate row identifier: UPDATEs of PART of the key onto a taken key must be refused
    {
        let def = TableDef::simple("s", &[("id", ColTy::Int), ("a", ColTy::Int), ("b", ColTy::Int)]).with_unique(&["a", "b"]);
        let row = |id: i128, a: i128, b: i128| Stmt::Insert { table: "s".into(), rows: vec![vec![i(id), i(a), i(b)]] };
        let upd = |col: &str, v: i128, id: i128| Stmt::Update { table: "s".into(), set: vec![(col.into(), i(v))], pred: Some(("id".into(), i(id))) };
        let prefix = vec![Op::Auto(Stmt::CreateTable(def)), Op::Auto(row(1, 10, 9)), Op::Auto(row(2, 10, 10)), Op::Auto(row(3, 11, 9))];
        let alpha = vec![
            Op::Auto(upd("b", 9, 2)),
            Op::Auto(upd("a", 11, 1)),
            Op::Auto(upd("a", 10, 3)),
            Op::Auto(upd("b", 10, 3)),
            Op::Auto(Stmt::Update { table: "s".into(), set: vec![("a".into(), i(10)), ("b".into(), i(9))], pred: Some(("id".into(), i(3))) }),
            Op::Auto(row(4, 10, 9)),
            Op::Auto(row(4, 12, 9)),
            Op::Auto(Stmt::Delete { table: "s".into(), pred: Some(("id".into(), i(1))) }),
            Op::Begin(1),
            Op::In(1, upd("b", 9, 2)),
            Op::In(1, row(5, 11, 10)),
            Op::Commit(1),
            Op::Rollback(1),
        ];
        searches.push(mk_search("C07", "s(id, a, b) UNIQUE(a, b): UPDATEs of one or both key columns of one row onto a key another row holds (must be refused), inserts, delete", Cfg::default(), prefix, alpha, if quick { 4 } else { 6 }, if quick { 60_000 } else { 2_000_000 }, |_| {}));
    }
    // D: NOT NULL columns under UPDATE (no unique index, so UPDATE is judged): every assignment of NULL / of a value that
    // some neighbouring column of the same row already holds
    {
        let def = TableDef::simple("n", &[("a", ColTy::Int), ("b", ColTy::Int), ("c", ColTy::Int)]).with_not_null("b").with_not_null("c");
        let row = |a: Val, b: Val, c: Val| Stmt::Insert { table: "n".into(), rows: vec![vec![a, b, c]] };
        let upd = |col: &str, v: Val, pred: Option<(&str, i128)>| Stmt::Update { table: "n".into(), set: vec![(col.into(), v)], pred: pred.map(|(c, k)| (c.to_string(), i(k))) };
        let prefix = vec![Op::Auto(Stmt::CreateTable(def)), Op::Auto(row(Val::Null, i(1), i(2))), Op::Auto(row(i(5), i(5), i(7)))];
        let mut alpha = vec![
            Op::Auto(upd("b", Val::Null, None)),
            Op::Auto(upd("b", Val::Null, Some(("c", 2)))),
            Op::Auto(upd("c", Val::Null, Some(("b", 5)))),
            Op::Auto(upd("c", Val::Null, Some(("b", 1)))),
            Op::Auto(upd("a", Val::Null, Some(("b", 5)))),
            Op::Auto(upd("b", i(7), Some(("b", 5)))),
            Op::Auto(upd("c", i(5), Some(("b", 5)))),
            Op::Auto(upd("a", i(1), Some(("b", 1)))),
            Op::Auto(row(i(3), Val::Null, i(3))),
            Op::Auto(row(Val::Null, i(3), Val::Null)),
            Op::Auto(row(Val::Null, i(4), i(4))),
            Op::Auto(Stmt::Delete { table: "n".into(), pred: Some(("b".into(), i(1))) }),
        ];
        alpha.push(Op::Begin(1));
        alpha.push(Op::In(1, upd("c", Val::Null, Some(("b", 1)))));
        alpha.push(Op::In(1, row(Val::Null, i(6), i(6))));
        alpha.push(Op::Commit(1));
        alpha.push(Op::Rollback(1));
        searches.push(mk_search("C07", "n(a, b NOT NULL, c NOT NULL) without a unique index: UPDATE to NULL / to a neighbouring column's value, by several predicates; inserts with NULLs", Cfg::default(), prefix, alpha, if quick { 4 } else { 6 }, if quick { 60_000 } else { 2_000_000 }, |_| {}));
    }
    run_searches(
        "C07",
        tier,
        "model_checking",
        searches,
        &[
            "statement-level interleavings of two sessions plus autocommit statements",
            "keys from {1,2,3,NULL}; constraints declared in CREATE TABLE (single and two-column) and by CREATE UNIQUE INDEX",
            "the committed-state invariant (no two live rows agree on a constrained column set, no NULL in a NOT NULL column) is implied by equality of every fresh read with the model, which maintains it by construction",
            "histories on which a listed known finding's hazard fires are judged only up to the hazard step",
        ],
        "BFS over insert/duplicate insert/NULL insert/multi-row insert/delete/re-insert/update-to-key/rollback/vacuum sequences; each statement must be accepted or rejected exactly as the constraint model says and every fresh read must equal the model",
    )
}

fn t2_def() -> TableDef {
    TableDef::simple("t2", &[("a", ColTy::Int), ("b", ColTy::Text)])
}
fn ins_t2(a: i128, b: &str) -> Stmt {
    Stmt::Insert { table: "t2".into(), rows: vec![vec![i(a), Val::Text(b.into())]] }
}

pub fn c13(tier: &str) -> i32 {
    let quick = tier == "quick";
    let mut searches = vec![];
    {
        let prefix = vec![Op::Auto(Stmt::CreateTable(t_plain())), Op::Auto(ins("t", &[(1, 10), (2, 20)]))];
        let alpha = vec![
            Op::Auto(ins("t", &[(3, 30)])),
            Op::Auto(del("t", 1)),
            Op::Auto(upd("t", 2, 21)),
            Op::Auto(upd("t", 2, 22)),
            Op::Begin(1),
            Op::In(1, ins("t", &[(4, 40)])),
            Op::In(1, del("t", 2)),
            Op::In(1, upd("t", 1, 11)),
            // a row inserted with a NULL and updated by the same transaction: VACUUM right after the commit has
            // to walk a kept delta that records "this column used to be NULL"
            Op::In(1, Stmt::Insert { table: "t".into(), rows: vec![vec![i(5), Val::Null]] }),
            Op::In(1, upd("t", 5, 51)),
            Op::Commit(1),
            Op::Rollback(1),
            Op::Auto(Stmt::CreateTable(t2_def())),
            Op::Auto(ins_t2(1, "x")),
            Op::Auto(Stmt::DropTable("t2".into())),
            Op::Vacuum,
            Op::Reopen,
        ];
        searches.push(mk_search("C13", "t(k,v): committed/rolled-back insert, update, delete, create/drop t2, VACUUM anywhere, reopen", Cfg::default(), prefix, alpha, if quick { 5 } else { 7 }, if quick { 150_000 } else { 6_000_000 }, |p| {
            p.vacuum_end = true;
        }));
    }
    {
        // VACUUM while sessions are open: it aborts their transactions. Whatever such a session does afterwards,
        // nobody else may ever see any of it - not after its COMMIT attempt (which must fail), not after ROLLBACK
        // or drop, and not after a reopen (end-of-history oracle)
        let prefix = vec![Op::Auto(Stmt::CreateTable(t_plain())), Op::Auto(ins("t", &[(1, 10), (2, 20)]))];
        let alpha = vec![
            Op::Auto(ins("t", &[(3, 30)])),
            Op::Begin(1),
            Op::In(1, ins("t", &[(4, 40)])),
            Op::In(1, ins("t", &[(5, 50)])),
            Op::In(1, sel("t")),
            Op::Commit(1),
            Op::Rollback(1),
            Op::DropSession(1),
            Op::Auto(sel("t")),
            Op::Vacuum,
            Op::Reopen,
        ];
        searches.push(mk_search("C13", "VACUUM while a session is open (its transaction is aborted; the session goes on and ends by commit, rollback or drop), reopen", Cfg::default(), prefix, alpha, if quick { 5 } else { 7 }, if quick { 100_000 } else { 3_000_000 }, |p| {
            p.vacuum_with_sessions = true;
            p.reopen_end = true;
        }));
    }
    {
        // same on a table with a unique index (index trees are vacuumed too)
        let prefix = vec![Op::Auto(Stmt::CreateTable(t_unique())), Op::Auto(ins("t", &[(1, 10), (2, 20)]))];
        let alpha = vec![
            Op::Auto(ins("t", &[(3, 30)])),
            Op::Auto(ins("t", &[(1, 11)])),
            Op::Auto(del("t", 1)),
            Op::Auto(selk("t", 1)),
            Op::Auto(selk("t", 3)),
            Op::Begin(1),
            Op::In(1, ins("t", &[(3, 31)])),
            Op::In(1, del("t", 2)),
            Op::Commit(1),
            Op::Rollback(1),
            Op::Vacuum,
            Op::Reopen,
        ];
        searches.push(mk_search("C13", "t(k UNIQUE,v): inserts, duplicate inserts, deletes, rollbacks, lookups by key, VACUUM anywhere, reopen", Cfg::default(), prefix, alpha, if quick { 5 } else { 7 }, if quick { 150_000 } else { 6_000_000 }, |p| {
            p.vacuum_end = true;
        }));
    }
    let code = run_searches(
        "C13",
        tier,
        "model_checking",
        searches,
        &[
            "VACUUM is a no-op in the reference model: every answer after it must equal the answer the model gives without it",
            "in addition to VACUUM at every position of the alphabet, every history without an open session is followed by VACUUM + fresh read of all tables (end-of-history oracle)",
            "VACUUM with sessions open is part of the third search: it aborts their transactions; whatever such a session does afterwards must never become visible to anyone (two listed findings mark where the engine fails this)",
            "histories on which a listed known finding's hazard fires are judged only up to the hazard step",
        ],
        "BFS over committed and rolled-back inserts/updates/deletes, table create/drop, VACUUM at any position (repeated), reopen; oracle = step-wise equality with the SI model in which VACUUM changes nothing",
    );
    let b = c13_boundedness(tier);
    if code == 0 { b } else { code }
}

/// (update; vacuum)^n: live storage must stop growing after the first cycle.
fn c13_boundedness(tier: &str) -> i32 {
    use crate::sqldrv::Db;
    // 3 updates per row and cycle: 100 cycles give every row 300 versions over its life (the version counter is one byte
    // and has to be reset by VACUUM), 300 cycles 900
    let n = if tier == "quick" { 100 } else { 300 };
    let mut db = match Db::create("c13b", Cfg::default()) {
        Ok(d) => d,
        Err(e) => {
            eprintln!("MACHINERY-ERROR property=C13: {e}");
            return 2;
        }
    };
    // small fixed-size rows: growing TEXT updates hit an unrelated B+tree defect (see C10)
    // the rows differ in the length of an (unchanged) text column, 0..7 bytes, so that the stored tuples end at every
    // offset modulo 8
    db.exec("CREATE TABLE g (k INT, v INT, s TEXT)");
    for k in 0..8 {
        db.exec(&format!("INSERT INTO g VALUES ({k}, 0, '{}')", "x".repeat(k)));
    }
    let mut sizes = vec![];
    for c in 0..n {
        for k in 0..8 {
            for rep in 0..3 {
                let o = db.exec(&format!("UPDATE g SET v = {} WHERE k = {k}", c * 10 + rep));
                if o != crate::sqldrv::Out::Count(1) {
                    println!("VIOLATION property=C13 replay=none");
                    println!("  boundedness run: UPDATE g SET v = .. WHERE k = {k} in cycle {c}: {}", o.show());
                    return 1;
                }
            }
        }
        if let Err(e) = db.vacuum() {
            println!("VIOLATION property=C13 replay=none");
            println!("  boundedness run: VACUUM failed in cycle {c}: {e:?}");
            return 1;
        }
        let o = db.exec("SELECT * FROM g");
        let expect: Vec<Vec<Val>> = (0..8).map(|k| vec![i(k), i((c * 10 + 2) as i128), Val::Text("x".repeat(k as usize))]).collect();
        if !crate::engines::seq::conforms(&Exp::Rows(expect.clone()), &o) {
            println!("VIOLATION property=C13 replay=none");
            println!("  boundedness run: contents after cycle {c}: {}", o.show());
            return 1;
        }
        sizes.push(db.file_len());
    }
    let first = sizes[1.min(sizes.len() - 1)];
    let last = *sizes.last().unwrap();
    eprintln!("[C13] boundedness: file size after cycles {:?}", sizes);
    if last > first {
        println!("VIOLATION property=C13 replay=none");
        println!("  (3 updates of each of 8 rows; vacuum)^{n}: file keeps growing after the first cycle: {:?}", sizes);
        return 1;
    }
    0
}

pub fn c15(tier: &str) -> i32 {
    let quick = tier == "quick";
    let mut searches = vec![];
    {
        let prefix = vec![Op::Auto(Stmt::CreateTable(t_plain())), Op::Auto(ins("t", &[(1, 10)]))];
        let t2b = TableDef::simple("t2", &[("a", ColTy::Int), ("b", ColTy::Text), ("c", ColTy::Int)]).with_not_null("a");
        let alpha = vec![
            Op::Auto(Stmt::CreateTable(t2_def())),
            Op::Auto(Stmt::CreateTable(t2b.clone())),
            Op::Auto(Stmt::DropTable("t2".into())),
            Op::Auto(ins_t2(1, "x")),
            Op::Auto(Stmt::Insert { table: "t2".into(), rows: vec![vec![i(1), Val::Text("x".into()), i(3)]] }),
            Op::Auto(sel("t2")),
            Op::Auto(ins("t", &[(2, 20)])),
            Op::Auto(Stmt::SetNotNull { table: "t".into(), col: "v".into() }),
            Op::Auto(Stmt::DropNotNull { table: "t".into(), col: "v".into() }),
            Op::Auto(insv("t", vec![i(3), Val::Null])),
            Op::Auto(Stmt::CreateUniqueIndex { name: "ix".into(), table: "t".into(), cols: vec!["k".into()] }),
            Op::Begin(1),
            Op::In(1, Stmt::CreateTable(t2_def())),
            Op::In(1, ins_t2(2, "y")),
            Op::In(1, ins("t", &[(4, 40)])),
            Op::In(1, sel("t2")),
            Op::Commit(1),
            Op::Rollback(1),
            Op::Reopen,
        ];
        searches.push(mk_search("C15", "create/drop/re-create t2 (two shapes), SET/DROP NOT NULL, CREATE UNIQUE INDEX, DML on both tables, DDL inside committed/rolled-back transactions, reopen", Cfg::default(), prefix, alpha, if quick { 5 } else { 7 }, if quick { 200_000 } else { 8_000_000 }, |p| {
            p.reopen_end = true;
        }));
    }
    {
        // several indexes on one table (also over the same column list as an existing constraint), their names after
        // DROP TABLE: an index lives and dies with its table, and its name is free again afterwards
        let u2 = TableDef::simple("t2", &[("a", ColTy::Int), ("b", ColTy::Int)]).with_unique(&["a"]);
        let prefix = vec![Op::Auto(Stmt::CreateTable(t_plain())), Op::Auto(ins("t", &[(1, 10)])), Op::Auto(Stmt::CreateTable(u2.clone())), Op::Auto(ins("t2", &[(1, 100)]))];
        let cui = |name: &str, table: &str, col: &str| Op::Auto(Stmt::CreateUniqueIndex { name: name.into(), table: table.into(), cols: vec![col.into()] });
        let alpha = vec![
            cui("i2", "t2", "a"),
            cui("i3", "t2", "b"),
            cui("i2", "t", "k"),
            cui("i3", "t", "v"),
            Op::Auto(Stmt::DropTable("t2".into())),
            Op::Auto(Stmt::CreateTable(u2)),
            Op::Auto(ins("t2", &[(1, 101)])),
            Op::Auto(ins("t2", &[(2, 200)])),
            Op::Auto(ins("t", &[(2, 20)])),
            Op::Vacuum,
            Op::Reopen,
        ];
        searches.push(mk_search("C15", "index names: second and third unique index on a table (one over the column list of its UNIQUE constraint), DROP TABLE, re-use of the index names on another table, re-creation of the table, VACUUM, reopen", Cfg::default(), prefix, alpha, if quick { 4 } else { 6 }, if quick { 100_000 } else { 4_000_000 }, |p| {
            p.reopen_end = true;
        }));
    }
    {
        // object NAMES: tables whose names differ only in letter case, a name that is a prefix of another, a name with
        // digits and underscores: each name is its own object, created/dropped/re-created independently
        let prefix = vec![Op::Auto(Stmt::CreateTable(TableDef::simple("orders", &[("k", ColTy::Int), ("v", ColTy::Int)]))), Op::Auto(ins("orders", &[(1, 10)]))];
        let mut alpha = vec![];
        for name in ["Orders", "ORDERS", "orde", "orders_2"] {
            alpha.push(Op::Auto(Stmt::CreateTable(TableDef::simple(name, &[("k", ColTy::Int), ("v", ColTy::Int)]))));
            alpha.push(Op::Auto(ins(name, &[(7, 70)])));
            alpha.push(Op::Auto(Stmt::DropTable(name.into())));
        }
        alpha.push(Op::Auto(sel("orders")));
        alpha.push(Op::Auto(sel("Orders")));
        alpha.push(Op::Auto(ins("orders", &[(2, 20)])));
        alpha.push(Op::Auto(Stmt::DropTable("orders".into())));
        alpha.push(Op::Begin(1));
        alpha.push(Op::In(1, Stmt::CreateTable(TableDef::simple("Orders", &[("k", ColTy::Int), ("v", ColTy::Int)]))));
        alpha.push(Op::In(1, ins("Orders", &[(8, 80)])));
        alpha.push(Op::Commit(1));
        alpha.push(Op::Rollback(1));
        alpha.push(Op::Reopen);
        searches.push(mk_search("C15", "names: orders / Orders / ORDERS / orde / orders_2 are five objects; create, fill, drop and re-create each, in autocommit and inside committed/rolled-back transactions, reopen", Cfg::default(), prefix, alpha, if quick { 3 } else { 5 }, if quick { 100_000 } else { 4_000_000 }, |p| {
            p.reopen_end = true;
        }));
    }
    {
        // DROP of the LAST column of a populated table: rows written under the old shape - with a value and with NULL in
        // the dropped column - stay readable, updatable and deletable under the new one, next to rows written after it
        let prefix = vec![
            Op::Auto(Stmt::CreateTable(TableDef::simple("t", &[("k", ColTy::Int), ("v", ColTy::Int), ("w", ColTy::Text)]))),
            Op::Auto(Stmt::Insert { table: "t".into(), rows: vec![vec![i(1), i(10), Val::Text("a".into())]] }),
            Op::Auto(Stmt::Insert { table: "t".into(), rows: vec![vec![i(2), i(20), Val::Null]] }),
            Op::Auto(Stmt::Insert { table: "t".into(), rows: vec![vec![i(3), Val::Null, Val::Null]] }),
        ];
        let alpha = vec![
            Op::Auto(Stmt::DropColumn { table: "t".into(), col: "w".into() }),
            Op::Auto(Stmt::DropColumn { table: "t".into(), col: "v".into() }),
            Op::Auto(sel("t")),
            Op::Auto(ins("t", &[(4, 40)])),
            Op::Auto(Stmt::Insert { table: "t".into(), rows: vec![vec![i(5), i(50), Val::Null]] }),
            Op::Auto(Stmt::Delete { table: "t".into(), pred: Some(("k".into(), i(2))) }),
            Op::Auto(Stmt::Update { table: "t".into(), set: vec![("v".into(), i(77))], pred: Some(("k".into(), i(3))) }),
            Op::Vacuum,
            Op::Reopen,
        ];
        searches.push(mk_search("C15", "DROP of the last column of a populated table (rows with a value and with NULL in it), then reads, inserts of both shapes, UPDATE, DELETE, VACUUM, reopen", Cfg::default(), prefix, alpha, if quick { 4 } else { 6 }, if quick { 100_000 } else { 2_000_000 }, |p| {
            p.reopen_end = true;
        }));
    }
    {
        // the ALTER shapes that are listed findings, plus DROP inside a transaction: kept in a separate
        // search so that the evidence shows how much of the space they mask
        let prefix = vec![Op::Auto(Stmt::CreateTable(TableDef::simple("t", &[("k", ColTy::Int), ("v", ColTy::Int), ("w", ColTy::Text)]))), Op::Auto(Stmt::Insert { table: "t".into(), rows: vec![vec![i(1), i(10), Val::Text("a".into())]] })];
        let alpha = vec![
            Op::Auto(Stmt::AddColumn { table: "t".into(), col: ColDef { name: "z".into(), ty: ColTy::Int, not_null: false, default: None } }),
            Op::Auto(Stmt::AddColumn { table: "t".into(), col: ColDef { name: "z".into(), ty: ColTy::Int, not_null: false, default: Some(i(5)) } }),
            Op::Auto(Stmt::DropColumn { table: "t".into(), col: "v".into() }),
            Op::Auto(sel("t")),
            Op::Begin(1),
            Op::In(1, Stmt::DropTable("t".into())),
            Op::In(1, Stmt::SetNotNull { table: "t".into(), col: "v".into() }),
            Op::Commit(1),
            Op::Rollback(1),
        ];
        searches.push(mk_search("C15", "ALTER ADD/DROP COLUMN on a populated table, DROP TABLE and ALTER inside transactions (listed findings)", Cfg::default(), prefix, alpha, 3, 50_000, |_| {}));
    }
    run_searches(
        "C15",
        tier,
        "model_checking",
        searches,
        &[
            "transactional-DDL reference model: an object exists for a reader exactly if its creator is visible to the reader's snapshot and its dropper is not",
            "every history without an open session is followed by close + reopen + fresh read of all tables (end-of-history oracle)",
            "histories on which a listed known finding's hazard fires are judged only up to the hazard step",
        ],
        "BFS over DDL (create/drop/re-create with another shape, SET/DROP NOT NULL, CREATE UNIQUE INDEX, ADD/DROP COLUMN) interleaved with DML on the same and another table, in autocommit and inside committed/rolled-back sessions, with reopen",
    )
}

pub fn c09(tier: &str) -> i32 {
    let quick = tier == "quick";
    let mut searches = vec![];
    let big = "y".repeat(9000); // forces an overflow chain with 4 KiB pages
    let cfgs: Vec<(Cfg, Cfg, &str)> = vec![
        (Cfg::default(), Cfg::default(), "page 4096, default cache"),
        (Cfg { page_size: 8192, cache: 64, pool: 2, min_keys: 4, siblings: 1 }, Cfg { page_size: 4096, cache: 10000, pool: 1, min_keys: 3, siblings: 3 }, "created with page 8192/cache 64/min_keys 4, reopened with a different config"),
    ];
    for (ccfg, ocfg, label) in cfgs {
        let prefix = vec![Op::Auto(Stmt::CreateTable(t_unique())), Op::Auto(ins("t", &[(1, 10)]))];
        let alpha = vec![
            Op::Auto(ins("t", &[(2, 20)])),
            Op::Auto(ins("t", &[(1, 11)])),
            Op::Auto(del("t", 1)),
            Op::Auto(Stmt::CreateTable(t2_def())),
            Op::Auto(ins_t2(1, "x")),
            Op::Auto(ins_t2(2, &big)),
            Op::Auto(Stmt::Delete { table: "t2".into(), pred: Some(("a".into(), i(2))) }),
            Op::Auto(Stmt::DropTable("t2".into())),
            Op::Begin(1),
            Op::In(1, ins("t", &[(3, 30)])),
            Op::In(1, del("t", 1)),
            Op::Commit(1),
            Op::Rollback(1),
            Op::Flush,
            Op::Vacuum,
            Op::Reopen,
        ];
        searches.push(mk_search("C09", &format!("unique table + second table with overflow rows, rollbacks, drop, flush, vacuum, reopen ({label})"), ccfg, prefix, alpha, if quick { 4 } else { 6 }, if quick { 150_000 } else { 6_000_000 }, |p| {
            p.reopen_end = true;
            p.reopen_cfg = Some(ocfg);
        }));
    }
    {
        // seed: the free list is not empty (a table with an overflow row was created and dropped), so the next
        // CREATE TABLE / overflow chain takes recycled pages; the end-of-history oracle closes and reopens, and
        // the deeper histories use the objects after a reopen in the middle
        let prefix = vec![
            Op::Auto(Stmt::CreateTable(t_unique())),
            Op::Auto(ins("t", &[(1, 10)])),
            Op::Auto(Stmt::CreateTable(t2_def())),
            Op::Auto(ins_t2(2, &big)),
            Op::Auto(Stmt::DropTable("t2".into())),
        ];
        let alpha = vec![
            Op::Auto(Stmt::CreateTable(t2_def())),
            Op::Auto(ins_t2(1, "x")),
            Op::Auto(ins_t2(3, &big)),
            Op::Auto(Stmt::DropTable("t2".into())),
            Op::Auto(ins("t", &[(2, 20)])),
            Op::Auto(Stmt::CreateUniqueIndex { name: "t2_a".into(), table: "t2".into(), cols: vec!["a".into()] }),
            Op::Flush,
            Op::Reopen,
        ];
        searches.push(mk_search("C09", "seed: non-empty free list (created + dropped table with an overflow row); re-create, use, reopen", Cfg::default(), prefix, alpha, if quick { 4 } else { 6 }, if quick { 50_000 } else { 2_000_000 }, |p| {
            p.reopen_end = true;
        }));
    }
    {
        // from the EMPTY database: no live relation exists while DDL is rolled back, VACUUM runs and the file is reopened
        let alpha = vec![
            Op::Begin(1),
            Op::In(1, Stmt::CreateTable(t2_def())),
            Op::In(1, ins_t2(1, "x")),
            Op::Rollback(1),
            Op::Commit(1),
            Op::Auto(Stmt::CreateTable(t2_def())),
            Op::Auto(Stmt::DropTable("t2".into())),
            Op::Auto(ins_t2(2, "y")),
            Op::Auto(Stmt::Select { table: "t2".into(), pred: None }),
            Op::Vacuum,
            Op::Reopen,
        ];
        searches.push(mk_search("C09", "from the empty database: rolled-back and committed CREATE TABLE, drop, VACUUM with and without a live relation, reopen", Cfg::default(), vec![], alpha, if quick { 6 } else { 8 }, if quick { 60_000 } else { 3_000_000 }, |p| {
            p.reopen_end = true;
        }));
    }
    let long = c09_long_history(tier);
    let code = run_searches(
        "C09",
        tier,
        "model_checking",
        searches,
        &[
            "the model is carried across every close/reopen: all tables, rows, NOT NULL/UNIQUE behaviour (probe statements in the alphabet), invisibility of rolled-back data, and fresh row/object ids (inserts and CREATE TABLE after reopen must not collide with old ones)",
            "every history without an open session is additionally followed by close + reopen (with a different configuration in the second search) + fresh read of all tables",
            "the >8192-transactions part of the property is covered by one long deterministic history (8 400 transactions quick, 20 000 thorough: committed and rolled-back work, VACUUM every 150, close/reopen every 1 500, contents compared with a map each time) that runs before the searches",
        ],
        "BFS over DML/DDL histories split at arbitrary points by flush, VACUUM and close/reopen; oracle = step-wise equality with the SI model carried across reopen",
    );
    if code == 0 { long } else { code }
}

/// One long deterministic history with more than 8192 transactions (the aborted-transaction bitmap and the id
/// counters have to survive that many), committed and rolled-back work, VACUUM every 150 and close/reopen every
/// 1500 transactions; the visible contents are compared with a map after every VACUUM and every reopen.
fn c09_long_history(tier: &str) -> i32 {
    use crate::sqldrv::{Db, Out};
    use std::collections::BTreeMap;
    let n: i128 = if tier == "quick" { 8400 } else { 20000 };
    let mut db = match Db::create("c09long", Cfg::default()) {
        Ok(d) => d,
        Err(e) => {
            eprintln!("MACHINERY-ERROR property=C09: {e}");
            return 2;
        }
    };
    let mut model: BTreeMap<i128, i128> = BTreeMap::new();
    let bad = |what: String| {
        println!("VIOLATION property=C09 replay=none");
        println!("  long history (deterministic; re-run the check to replay): {what}");
        1
    };
    if db.exec("CREATE TABLE h (k INT, v INT)") != Out::Ddl {
        return bad("CREATE TABLE h failed".into());
    }
    let mut txns = 1u64;
    let check = |db: &mut Db, model: &BTreeMap<i128, i128>, at: &str| -> Option<String> {
        let o = db.exec("SELECT * FROM h");
        let want: Vec<Vec<Val>> = model.iter().map(|(k, v)| vec![i(*k), i(*v)]).collect();
        if crate::engines::seq::conforms(&Exp::Rows(want.clone()), &o) {
            None
        } else {
            let got_n = if let Out::Rows(r) = &o { r.len() } else { 0 };
            Some(format!("{at}: table h holds {got_n} rows, expected {} ({})", want.len(), o.show().chars().take(300).collect::<String>()))
        }
    };
    for t in 0..n {
        let step: Result<(), String> = (|| {
            match t % 6 {
                0 | 5 => {
                    let o = db.exec(&format!("INSERT INTO h VALUES ({t}, {})", t * 2));
                    if o != Out::Count(1) {
                        return Err(format!("transaction {txns}: autocommit INSERT of key {t}: {}", o.show()));
                    }
                    model.insert(t, t * 2);
                }
                1 => {
                    db.begin(1).map_err(|e| format!("begin: {e}"))?;
                    let o = db.sexec(1, &format!("INSERT INTO h VALUES ({}, 7)", 1_000_000 + t));
                    if o != Out::Count(1) {
                        return Err(format!("transaction {txns}: session INSERT: {}", o.show()));
                    }
                    db.rollback(1).map_err(|e| format!("rollback: {e:?}"))?;
                }
                2 => {
                    // delete the key inserted two steps ago (autocommit)
                    let k = t - 2;
                    let o = db.exec(&format!("DELETE FROM h WHERE k = {k}"));
                    let want = if model.remove(&k).is_some() { 1 } else { 0 };
                    if o != Out::Count(want) {
                        return Err(format!("transaction {txns}: DELETE of key {k}: {} (expected count={want})", o.show()));
                    }
                }
                3 => {
                    db.begin(1).map_err(|e| format!("begin: {e}"))?;
                    let o = db.sexec(1, &format!("INSERT INTO h VALUES ({t}, {})", t * 2));
                    if o != Out::Count(1) {
                        return Err(format!("transaction {txns}: session INSERT: {}", o.show()));
                    }
                    db.commit(1).map_err(|e| format!("commit: {e:?}"))?;
                    model.insert(t, t * 2);
                }
                _ => {
                    let k = t - 1;
                    let o = db.exec(&format!("SELECT * FROM h WHERE k = {k}"));
                    let want: Vec<Vec<Val>> = model.get(&k).map(|v| vec![vec![i(k), i(*v)]]).unwrap_or_default();
                    if !crate::engines::seq::conforms(&Exp::Rows(want), &o) {
                        return Err(format!("transaction {txns}: lookup of key {k}: {}", o.show()));
                    }
                }
            }
            Ok(())
        })();
        txns += 1;
        if let Err(e) = step {
            return bad(e);
        }
        if t % 97 == 0 {
            // one extra transaction now and then, so that the ids of the rolled-back sessions run through every
            // residue (the aborted set is a bitmap: byte and bit positions matter)
            let _ = db.exec("SELECT * FROM h WHERE k = -5");
            txns += 1;
        }
        if t % 150 == 149 {
            if let Err(e) = db.vacuum() {
                return bad(format!("VACUUM after {txns} transactions failed: {e:?}"));
            }
            txns += 1;
            if let Some(e) = check(&mut db, &model, &format!("after VACUUM at {txns} transactions")) {
                return bad(e);
            }
            // keep the table small: remove everything but the newest keys
            if model.len() > 120 {
                let cut = *model.keys().nth(model.len() - 60).unwrap();
                let victims: Vec<i128> = model.keys().copied().filter(|k| *k < cut).collect();
                for k in victims {
                    let o = db.exec(&format!("DELETE FROM h WHERE k = {k}"));
                    if o != Out::Count(1) {
                        return bad(format!("trim: DELETE of key {k}: {}", o.show()));
                    }
                    model.remove(&k);
                    txns += 1;
                }
            }
        }
        // reopen right after a VACUUM (t % 1500 == 1499) and in the middle between two VACUUMs (t % 1500 == 700), where
        // about a hundred transactions' garbage - rolled-back inserts of every id residue - is still in the file and
        // only the persisted aborted-transaction bitmap hides it
        if t % 1500 == 1499 || t % 1500 == 700 {
            if let Err(e) = db.reopen(Cfg::default()) {
                return bad(format!("reopen after {txns} transactions failed: {e}"));
            }
            if let Some(e) = check(&mut db, &model, &format!("after reopen at {txns} transactions")) {
                // listed finding: beyond transaction id 8192 a rolled-back insert that no VACUUM removed before the
                // reopen becomes visible; recognised by its shape (only keys of rolled-back inserts are extra)
                let id = "KT-aborted-transaction-id-beyond-8192-forgotten-at-reopen";
                let extra_only_ghosts = match db.exec("SELECT * FROM h") {
                    Out::Rows(rows) => {
                        let got: std::collections::BTreeSet<i128> = rows.iter().filter_map(|r| if let Val::Int(k) = &r[0] { Some(*k) } else { None }).collect();
                        model.keys().all(|k| got.contains(k)) && got.iter().filter(|k| !model.contains_key(k)).all(|k| *k >= 1_000_000)
                    }
                    _ => false,
                };
                if txns > 8192 && extra_only_ghosts && Findings::load().ids_for("C09").contains(id) {
                    crate::report::EXTRA_REOBSERVED.lock().unwrap().push((id.to_string(), format!("long history: after the reopen at {txns} transactions rolled-back inserts of transactions with ids above 8192 are visible")));
                    eprintln!("[C09] long history: {txns} transactions, listed finding re-observed at a reopen; the history ends here");
                    return 0;
                }
                return bad(e);
            }
        }
    }
    if let Err(e) = db.reopen(Cfg::default()) {
        return bad(format!("final reopen after {txns} transactions failed: {e}"));
    }
    if let Some(e) = check(&mut db, &model, &format!("after the final reopen ({txns} transactions)")) {
        let id = "KT-aborted-transaction-id-beyond-8192-forgotten-at-reopen";
        let extra_only_ghosts = match db.exec("SELECT * FROM h") {
            Out::Rows(rows) => {
                let got: std::collections::BTreeSet<i128> = rows.iter().filter_map(|r| if let Val::Int(k) = &r[0] { Some(*k) } else { None }).collect();
                model.keys().all(|k| got.contains(k)) && got.iter().filter(|k| !model.contains_key(k)).all(|k| *k >= 1_000_000)
            }
            _ => false,
        };
        if txns > 8192 && extra_only_ghosts && Findings::load().ids_for("C09").contains(id) {
            crate::report::EXTRA_REOBSERVED.lock().unwrap().push((id.to_string(), format!("long history: after the final reopen ({txns} transactions) rolled-back inserts of transactions with ids above 8192 are visible")));
            eprintln!("[C09] long history: {txns} transactions, listed finding re-observed at the final reopen");
            return 0;
        }
        return bad(e);
    }
    // fresh ids after all that: a rolled-back insert stays invisible across another reopen, a committed one stays
    if db.begin(1).is_err() || db.sexec(1, "INSERT INTO h VALUES (-1, -1)") != Out::Count(1) || db.rollback(1).is_err() {
        return bad("probe session after the long history failed".into());
    }
    if db.exec("INSERT INTO h VALUES (-2, -2)") != Out::Count(1) {
        return bad("probe insert after the long history failed".into());
    }
    model.insert(-2, -2);
    if let Err(e) = db.reopen(Cfg::default()) {
        return bad(format!("reopen after the probes failed: {e}"));
    }
    if let Some(e) = check(&mut db, &model, "after the probes and one more reopen") {
        // listed finding: the aborted-transaction bitmap in page zero tracks ids below 8192 only
        let id = "KT-aborted-transaction-id-beyond-8192-forgotten-at-reopen";
        let mut with_ghost = model.clone();
        with_ghost.insert(-1, -1);
        if Findings::load().ids_for("C09").contains(id) && check(&mut db, &with_ghost, "").is_none() {
            crate::report::EXTRA_REOBSERVED.lock().unwrap().push((id.to_string(), format!("long history, {txns} transactions: the rolled-back INSERT (-1,-1) of a transaction with an id above 8192 is visible after close + reopen")));
            eprintln!("[C09] long history: {txns} transactions, listed finding re-observed at the final probe");
            return 0;
        }
        return bad(e);
    }
    eprintln!("[C09] long history: {txns} transactions, {} rows at the end, ok", model.len());
    0
}
