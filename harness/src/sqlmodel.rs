//! Reference evaluator for a subset of SQL: expressions with three-valued logic, comparison,
//! arithmetic with NULL propagation, BETWEEN / IN / IS NULL / LIKE; rendering with MINIMAL
//! parentheses under the standard SQL precedence (OR < AND < NOT < comparison < +,- < *,/ < unary -).
//! The driver renders the tree to text for the engine and the model evaluates the tree directly,
//! so the engine's parser precedence is part of what is checked.

use crate::sqldrv::Val;
use serde::{Deserialize, Serialize};
use std::cmp::Ordering;

#[derive(Debug, Clone, Copy, PartialEq, Eq, Serialize, Deserialize)]
pub enum CmpOp {
    Eq,
    Ne,
    Lt,
    Le,
    Gt,
    Ge,
}
#[derive(Debug, Clone, Copy, PartialEq, Eq, Serialize, Deserialize)]
pub enum ArOp {
    Add,
    Sub,
    Mul,
    /// integer division truncates toward zero (as the engine documents); division by zero is an error
    Div,
    /// remainder with the sign of the dividend
    Mod,
}

#[derive(Debug, Clone, PartialEq, Serialize, Deserialize)]
pub enum E {
    /// (rendered name, index into the row)
    Col(String, usize),
    Lit(Val),
    Cmp(Box<E>, CmpOp, Box<E>),
    Ar(Box<E>, ArOp, Box<E>),
    Neg(Box<E>),
    And(Box<E>, Box<E>),
    Or(Box<E>, Box<E>),
    Not(Box<E>),
    IsNull(Box<E>, bool),
    Between(Box<E>, Box<E>, Box<E>, bool),
    In(Box<E>, Vec<E>, bool),
    Like(Box<E>, String, bool),
}

pub fn col(name: &str, idx: usize) -> E {
    E::Col(name.into(), idx)
}
pub fn int(v: i128) -> E {
    E::Lit(Val::Int(v))
}
pub fn text(s: &str) -> E {
    E::Lit(Val::Text(s.into()))
}
pub fn null() -> E {
    E::Lit(Val::Null)
}
pub fn cmp(a: E, op: CmpOp, b: E) -> E {
    E::Cmp(Box::new(a), op, Box::new(b))
}
pub fn ar(a: E, op: ArOp, b: E) -> E {
    E::Ar(Box::new(a), op, Box::new(b))
}
pub fn and(a: E, b: E) -> E {
    E::And(Box::new(a), Box::new(b))
}
pub fn or(a: E, b: E) -> E {
    E::Or(Box::new(a), Box::new(b))
}
pub fn not(a: E) -> E {
    E::Not(Box::new(a))
}

fn num(v: &Val) -> Option<f64> {
    match v {
        Val::Int(i) => Some(*i as f64),
        Val::Real(b) => Some(f64::from_bits(*b)),
        _ => None,
    }
}

pub fn val_cmp(a: &Val, b: &Val) -> Option<Ordering> {
    match (a, b) {
        (Val::Null, _) | (_, Val::Null) => None,
        (Val::Int(x), Val::Int(y)) => Some(x.cmp(y)),
        (Val::Text(x), Val::Text(y)) => Some(x.as_bytes().cmp(y.as_bytes())),
        (Val::Bool(x), Val::Bool(y)) => Some(x.cmp(y)),
        _ => match (num(a), num(b)) {
            (Some(x), Some(y)) => x.partial_cmp(&y),
            _ => None,
        },
    }
}

pub fn like(s: &str, pat: &str) -> bool {
    // % = any run, _ = exactly one character
    let s: Vec<char> = s.chars().collect();
    let p: Vec<char> = pat.chars().collect();
    fn go(s: &[char], p: &[char]) -> bool {
        match p.first() {
            None => s.is_empty(),
            Some('%') => (0..=s.len()).any(|k| go(&s[k..], &p[1..])),
            Some('_') => !s.is_empty() && go(&s[1..], &p[1..]),
            Some(c) => s.first() == Some(c) && go(&s[1..], &p[1..]),
        }
    }
    go(&s, &p)
}

/// Kleene three-valued logic on Option<bool> (None = unknown)
fn tv(v: &Val) -> Result<Option<bool>, String> {
    match v {
        Val::Null => Ok(None),
        Val::Bool(b) => Ok(Some(*b)),
        other => Err(format!("not a truth value: {other:?}")),
    }
}
fn from_tv(t: Option<bool>) -> Val {
    match t {
        None => Val::Null,
        Some(b) => Val::Bool(b),
    }
}

pub fn eval(e: &E, row: &[Val]) -> Result<Val, String> {
    Ok(match e {
        E::Col(_, i) => row[*i].clone(),
        E::Lit(v) => v.clone(),
        E::Cmp(a, op, b) => {
            let (x, y) = (eval(a, row)?, eval(b, row)?);
            if x == Val::Null || y == Val::Null {
                return Ok(Val::Null);
            }
            let o = val_cmp(&x, &y).ok_or_else(|| format!("incomparable {x:?} {y:?}"))?;
            Val::Bool(match op {
                CmpOp::Eq => o == Ordering::Equal,
                CmpOp::Ne => o != Ordering::Equal,
                CmpOp::Lt => o == Ordering::Less,
                CmpOp::Le => o != Ordering::Greater,
                CmpOp::Gt => o == Ordering::Greater,
                CmpOp::Ge => o != Ordering::Less,
            })
        }
        E::Ar(a, op, b) => {
            let (x, y) = (eval(a, row)?, eval(b, row)?);
            match (&x, &y) {
                (Val::Null, _) | (_, Val::Null) => Val::Null,
                (Val::Int(p), Val::Int(q)) => Val::Int(match op {
                    ArOp::Add => p + q,
                    ArOp::Sub => p - q,
                    ArOp::Mul => p * q,
                    ArOp::Div => {
                        if *q == 0 {
                            return Err("division by zero".into());
                        }
                        p / q
                    }
                    ArOp::Mod => {
                        if *q == 0 {
                            return Err("division by zero".into());
                        }
                        p % q
                    }
                }),
                _ => {
                    let (p, q) = (num(&x).ok_or("arith on non-number")?, num(&y).ok_or("arith on non-number")?);
                    Val::real(match op {
                        ArOp::Add => p + q,
                        ArOp::Sub => p - q,
                        ArOp::Mul => p * q,
                        ArOp::Div => p / q,
                        ArOp::Mod => p % q,
                    })
                }
            }
        }
        E::Neg(a) => match eval(a, row)? {
            Val::Null => Val::Null,
            Val::Int(i) => Val::Int(-i),
            Val::Real(b) => Val::real(-f64::from_bits(b)),
            other => return Err(format!("negation of {other:?}")),
        },
        E::And(a, b) => {
            let (x, y) = (tv(&eval(a, row)?)?, tv(&eval(b, row)?)?);
            from_tv(match (x, y) {
                (Some(false), _) | (_, Some(false)) => Some(false),
                (Some(true), Some(true)) => Some(true),
                _ => None,
            })
        }
        E::Or(a, b) => {
            let (x, y) = (tv(&eval(a, row)?)?, tv(&eval(b, row)?)?);
            from_tv(match (x, y) {
                (Some(true), _) | (_, Some(true)) => Some(true),
                (Some(false), Some(false)) => Some(false),
                _ => None,
            })
        }
        E::Not(a) => from_tv(tv(&eval(a, row)?)?.map(|b| !b)),
        E::IsNull(a, neg) => Val::Bool((eval(a, row)? == Val::Null) != *neg),
        E::Between(x, lo, hi, neg) => {
            let inner = and(cmp((**x).clone(), CmpOp::Ge, (**lo).clone()), cmp((**x).clone(), CmpOp::Le, (**hi).clone()));
            let v = eval(&inner, row)?;
            if *neg { from_tv(tv(&v)?.map(|b| !b)) } else { v }
        }
        E::In(x, list, neg) => {
            let xv = eval(x, row)?;
            if xv == Val::Null {
                return Ok(Val::Null);
            }
            let mut unknown = false;
            let mut found = false;
            for item in list {
                let iv = eval(item, row)?;
                if iv == Val::Null {
                    unknown = true;
                } else if val_cmp(&xv, &iv) == Some(Ordering::Equal) {
                    found = true;
                }
            }
            let r = if found { Some(true) } else if unknown { None } else { Some(false) };
            from_tv(if *neg { r.map(|b| !b) } else { r })
        }
        E::Like(x, pat, neg) => match eval(x, row)? {
            Val::Null => Val::Null,
            Val::Text(s) => Val::Bool(like(&s, pat) != *neg),
            other => return Err(format!("LIKE on {other:?}")),
        },
    })
}

fn prec(e: &E) -> u8 {
    match e {
        E::Or(..) => 1,
        E::And(..) => 2,
        E::Not(..) => 3,
        E::Cmp(..) | E::IsNull(..) | E::Between(..) | E::In(..) | E::Like(..) => 4,
        E::Ar(_, ArOp::Add | ArOp::Sub, _) => 5,
        E::Ar(_, ArOp::Mul | ArOp::Div | ArOp::Mod, _) => 6,
        E::Neg(..) => 7,
        E::Col(..) | E::Lit(..) => 8,
    }
}

fn lit(v: &Val) -> String {
    crate::model::lit(v)
}

/// Render with the fewest parentheses that keep the tree under STANDARD SQL precedence.
pub fn render(e: &E) -> String {
    fn wrap(child: &E, min: u8) -> String {
        let s = render(child);
        if prec(child) < min { format!("({s})") } else { s }
    }
    match e {
        E::Col(n, _) => n.clone(),
        E::Lit(v) => lit(v),
        E::Or(a, b) => format!("{} OR {}", wrap(a, 1), wrap(b, 2)),
        E::And(a, b) => format!("{} AND {}", wrap(a, 2), wrap(b, 3)),
        E::Not(a) => format!("NOT {}", wrap(a, 3)),
        E::Cmp(a, op, b) => {
            let o = match op {
                CmpOp::Eq => "=",
                CmpOp::Ne => "<>",
                CmpOp::Lt => "<",
                CmpOp::Le => "<=",
                CmpOp::Gt => ">",
                CmpOp::Ge => ">=",
            };
            format!("{} {o} {}", wrap(a, 5), wrap(b, 5))
        }
        E::IsNull(a, neg) => format!("{} IS {}NULL", wrap(a, 5), if *neg { "NOT " } else { "" }),
        E::Between(x, lo, hi, neg) => format!("{} {}BETWEEN {} AND {}", wrap(x, 5), if *neg { "NOT " } else { "" }, wrap(lo, 5), wrap(hi, 5)),
        E::In(x, list, neg) => format!("{} {}IN ({})", wrap(x, 5), if *neg { "NOT " } else { "" }, list.iter().map(render).collect::<Vec<_>>().join(", ")),
        E::Like(x, p, neg) => format!("{} {}LIKE '{}'", wrap(x, 5), if *neg { "NOT " } else { "" }, p),
        E::Ar(a, op, b) => match op {
            ArOp::Add => format!("{} + {}", wrap(a, 5), wrap(b, 6)),
            ArOp::Sub => format!("{} - {}", wrap(a, 5), wrap(b, 6)),
            ArOp::Mul => format!("{} * {}", wrap(a, 6), wrap(b, 7)),
            ArOp::Div => format!("{} / {}", wrap(a, 6), wrap(b, 7)),
            ArOp::Mod => format!("{} % {}", wrap(a, 6), wrap(b, 7)),
        },
        E::Neg(a) => format!("-{}", wrap(a, 7)),
    }
}
