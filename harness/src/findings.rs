//! known_findings.txt: committed list of genuine defects that are recorded rather than repaired.
//! Never written at run time. A hazard/trigger name that the file does not list for the
//! property being checked is never applied, so deleting a line turns the corresponding
//! executions back into violations.

use std::collections::{BTreeMap, BTreeSet};

#[derive(Debug, Clone)]
pub struct Finding {
    pub property: String,
    pub id: String,
    pub text: String,
}

#[derive(Debug, Default, Clone)]
pub struct Findings {
    pub known: Vec<Finding>,
    /// `exclude:` lines: a finding of ANOTHER property whose hazard makes histories unjudgeable for this one
    pub exclude: Vec<Finding>,
    pub fixed: Vec<String>,
}

pub fn verif_root() -> std::path::PathBuf {
    if let Ok(p) = std::env::var("VERIF_ROOT") {
        return p.into();
    }
    // the binary lives in <root>/.target/<profile>/
    let exe = std::env::current_exe().unwrap_or_default();
    for a in exe.ancestors() {
        if a.join("known_findings.txt").exists() && a.join("properties.jsonl").exists() {
            return a.to_path_buf();
        }
    }
    "/verif".into()
}

impl Findings {
    pub fn load() -> Findings {
        let p = verif_root().join("known_findings.txt");
        let mut f = Findings::default();
        let Ok(text) = std::fs::read_to_string(&p) else { return f };
        for line in text.lines() {
            let line = line.trim();
            if line.is_empty() || line.starts_with('#') {
                continue;
            }
            let (is_known, body) = if let Some(r) = line.strip_prefix("known:") {
                (true, Some(r))
            } else if let Some(r) = line.strip_prefix("exclude:") {
                (false, Some(r))
            } else {
                (false, None)
            };
            if let Some(rest) = body {
                let mut prop = String::new();
                let mut id = String::new();
                let mut text = vec![];
                for w in rest.split_whitespace() {
                    if let Some(v) = w.strip_prefix("property=") {
                        if prop.is_empty() {
                            prop = v.to_string();
                            continue;
                        }
                    }
                    if let Some(v) = w.strip_prefix("id=") {
                        if id.is_empty() {
                            id = v.to_string();
                            continue;
                        }
                    }
                    text.push(w);
                }
                let fd = Finding { property: prop, id, text: text.join(" ") };
                if is_known { f.known.push(fd) } else { f.exclude.push(fd) }
            } else if let Some(rest) = line.strip_prefix("fixed:") {
                f.fixed.push(rest.trim().to_string());
            }
        }
        f
    }

    /// ids listed for this property (findings of the property itself and exclusions)
    pub fn ids_for(&self, property: &str) -> BTreeSet<String> {
        self.known.iter().chain(self.exclude.iter()).filter(|k| k.property == property).map(|k| k.id.clone()).collect()
    }

    pub fn is_own_finding(&self, property: &str, id: &str) -> bool {
        self.known.iter().any(|k| k.property == property && k.id == id)
    }

    pub fn text(&self, property: &str, id: &str) -> String {
        self.known
            .iter()
            .find(|k| k.property == property && k.id == id)
            .map(|k| k.text.clone())
            .unwrap_or_default()
    }

    pub fn texts_for(&self, property: &str) -> BTreeMap<String, String> {
        self.known.iter().filter(|k| k.property == property).map(|k| (k.id.clone(), k.text.clone())).collect()
    }
}
