//! Crash-point enumeration checks (C01 C02 C08) on the `crash` engine.

use crate::engines::crash::CrashParams;
use crate::engines::seq::SeqParams;
use crate::findings::Findings;
use crate::model::*;
use crate::report::{run_searches, Search};
use crate::sqldrv::{Cfg, ErrClass, Val};

fn i(v: i128) -> Val {
    Val::Int(v)
}
fn tx(s: &str) -> Val {
    Val::Text(s.into())
}
fn t_text() -> TableDef {
    TableDef::simple("t", &[("k", ColTy::Int), ("v", ColTy::Text)])
}
fn ins(k: i128, v: &str) -> Stmt {
    Stmt::Insert { table: "t".into(), rows: vec![vec![i(k), tx(v)]] }
}
fn del(k: i128) -> Stmt {
    Stmt::Delete { table: "t".into(), pred: Some(("k".into(), i(k))) }
}
fn upd(k: i128, v: &str) -> Stmt {
    Stmt::Update { table: "t".into(), set: vec![("v".into(), tx(v))], pred: Some(("k".into(), i(k))) }
}
fn t2() -> TableDef {
    TableDef::simple("t2", &[("a", ColTy::Int)])
}

fn mk(property: &str, mode: &str, label: &str, cfg: Cfg, prefix: Vec<Op>, alphabet: Vec<Op>, depth: usize, budget: usize, nested: bool) -> Search {
    let findings = Findings::load();
    let ids: Vec<String> = findings.ids_for(property).into_iter().collect();
    let seq = SeqParams {
        property: property.into(),
        cfg,
        prefix,
        alphabet: alphabet.clone(),
        hazards: ids.iter().filter(|s| s.starts_with("KF-")).cloned().collect(),
        audit_end: false,
        reopen_end: false,
        vacuum_end: false,
        reopen_cfg: None,
        oom_tolerant: false,
        vacuum_with_sessions: false,
        census_end: false,
    };
    let p = CrashParams { seq, mode: mode.into(), nested, triggers: ids.iter().filter(|s| s.starts_with("KT-")).cloned().collect(), skip_close_with_open_session: false };
    Search {
        label: label.into(),
        engine: "crash",
        params: serde_json::to_value(&p).unwrap(),
        alphabet_shown: alphabet.iter().map(|o| o.show()).collect(),
        max_depth: depth,
        budget,
        timeout_s: 120,
    }
}

fn big(c: char) -> String {
    std::iter::repeat(c).take(9000).collect()
}

fn committed_alphabet() -> Vec<Op> {
    vec![
        Op::Auto(ins(2, "b")),
        Op::Auto(ins(3, "c")),
        Op::Auto(Stmt::Insert { table: "t".into(), rows: vec![vec![i(4), tx(&big('L'))]] }),
        Op::Auto(del(1)),
        Op::Auto(Stmt::CreateTable(t2())),
        Op::Auto(Stmt::Insert { table: "t2".into(), rows: vec![vec![i(7)]] }),
        // a CREATE TABLE that is refused (the name is taken): it must leave nothing behind that recovery trips over
        Op::Auto(Stmt::CreateTable(t_text())),
        Op::Begin(1),
        Op::In(1, ins(5, "e")),
        Op::In(1, ins(6, "f")),
        Op::Commit(1),
        Op::Begin(2),
        Op::In(2, ins(8, "h")),
        Op::Commit(2),
        Op::Flush,
        Op::Vacuum,
    ]
}

/// Seed state + alphabet in which one transaction's log records straddle the end of block zero: its
/// commit force writes the numbered blocks first and block zero (header + oldest records) last.
fn straddling() -> (Vec<Op>, Vec<Op>) {
    let mut pre5 = prefix_basic();
    for (n, c) in ['P', 'Q', 'R'].iter().enumerate() {
        pre5.push(Op::Auto(Stmt::Insert { table: "t".into(), rows: vec![vec![i(20 + n as i128), tx(&big(*c))]] }));
    }
    let bigrow = |k: i128, c: char| Stmt::Insert { table: "t".into(), rows: vec![vec![i(k), tx(&big(c))]] };
    let alpha5 = vec![
        Op::Begin(1),
        Op::In(1, bigrow(30, 'U')),
        Op::In(1, bigrow(31, 'V')),
        Op::In(1, ins(5, "e")),
        Op::In(1, del(1)),
        Op::Commit(1),
        Op::Auto(ins(2, "b")),
        Op::Auto(Stmt::Insert { table: "t".into(), rows: vec![vec![i(40), tx(&big('W'))], vec![i(41), tx(&big('X'))], vec![i(42), tx("y")]] }),
        Op::Flush,
    ];
    (pre5, alpha5)
}

fn prefix_basic() -> Vec<Op> {
    vec![Op::Auto(Stmt::CreateTable(t_text())), Op::Auto(ins(1, "a"))]
}

const ASSUME: [&str; 4] = [
    "crash model = the property's own: a crash leaves exactly a prefix of the recorded sequence of file mutations (writes are atomic and ordered; torn, reordered or lost-after-sync writes are not modelled)",
    "crash points inside operations other than the last one of a history are covered by the parent history of the breadth-first search (the I/O stream of a prefix history is a prefix of the stream, the engine being deterministic), so each execution enumerates the crash points of its last operation and of the final clean close",
    "histories are deduplicated on the reference model's state plus the list of operations since the last checkpoint",
    "a live (pre-crash) divergence from the model or a listed hazard ends the history without crash enumeration; those are judged by the seq-based checks",
];

pub fn c01(tier: &str) -> i32 {
    let quick = tier == "quick";
    let mut searches = vec![];
    searches.push(mk("C01", "C01", "fresh database: autocommit + two sessions of committed work, DDL, checkpoints", Cfg::default(), prefix_basic(), committed_alphabet(), if quick { 4 } else { 5 }, if quick { 30_000 } else { 400_000 }, false));
    // seed: checkpointed and reopened database
    let mut pre2 = prefix_basic();
    pre2.push(Op::Auto(ins(9, "i")));
    pre2.push(Op::Reopen);
    searches.push(mk("C01", "C01", "seed: database checkpointed and reopened", Cfg::default(), pre2, committed_alphabet(), if quick { 2 } else { 4 }, if quick { 3_000 } else { 200_000 }, false));
    // seed: log block zero ~90% full (4 rows of 9000 bytes since the last checkpoint)
    let mut pre3 = prefix_basic();
    for (n, c) in ['P', 'Q', 'R', 'S'].iter().enumerate() {
        pre3.push(Op::Auto(Stmt::Insert { table: "t".into(), rows: vec![vec![i(20 + n as i128), tx(&big(*c))]] }));
    }
    searches.push(mk("C01", "C01", "seed: log block zero about 90% full", Cfg::default(), pre3, committed_alphabet(), if quick { 2 } else { 4 }, if quick { 3_000 } else { 200_000 }, false));
    // sessions that live across checkpoints: the log (and its sequence numbers) restarts under an open transaction
    {
        let mut pre6 = prefix_basic();
        pre6.push(Op::Flush);
        let alpha6 = vec![Op::Begin(1), Op::In(1, ins(5, "e")), Op::In(1, ins(6, "f")), Op::Commit(1), Op::Flush, Op::Auto(ins(2, "b")), Op::Begin(2), Op::In(2, ins(8, "h")), Op::Commit(2)];
        searches.push(mk("C01", "C01", "seed: freshly checkpointed database; sessions that begin before and commit after a checkpoint, other commits in between", Cfg::default(), pre6, alpha6, if quick { 4 } else { 6 }, if quick { 20_000 } else { 300_000 }, false));
    }
    let (pre5, alpha5) = straddling();
    searches.push(mk("C01", "C01", "seed: log block zero about 70% full; transactions of several multi-page rows whose records straddle the block boundary", Cfg::default(), pre5, alpha5, if quick { 4 } else { 6 }, if quick { 20_000 } else { 300_000 }, false));
    // table with a unique index on k: the recovered rows must also be found through the index
    let pre4 = vec![Op::Auto(Stmt::CreateTable(t_text().with_unique(&["k"]))), Op::Auto(ins(1, "a"))];
    let alpha4 = vec![
        Op::Auto(ins(2, "b")),
        Op::Auto(ins(3, "c")),
        Op::Auto(del(1)),
        Op::Begin(1),
        Op::In(1, ins(5, "e")),
        Op::Commit(1),
        Op::Begin(2),
        Op::In(2, ins(8, "h")),
        Op::Commit(2),
        Op::Flush,
    ];
    searches.push(mk("C01", "C01", "table with a unique index (recovered rows are also looked up by key)", Cfg::default(), pre4, alpha4, if quick { 4 } else { 6 }, if quick { 20_000 } else { 300_000 }, false));
    run_searches(
        "C01",
        tier,
        "fault_enumeration",
        searches,
        &ASSUME,
        "for every history of the breadth-first search (committed work only): every prefix of the recorded file-mutation stream is rebuilt as an on-disk image, opened with Database::open, and every table compared with the model's committed state after the acknowledged commits (or, if a commit was in flight at that point, also the state including it); distinct = distinct (I/O stream length, failures) outcomes",
    )
}

pub fn c02(tier: &str) -> i32 {
    let quick = tier == "quick";
    let mut alpha = vec![
        Op::Auto(ins(2, "b")),
        Op::Auto(del(1)),
        Op::Begin(1),
        Op::In(1, ins(5, "e")),
        Op::In(1, del(1)),
        Op::In(1, upd(1, "u")),
        Op::In(1, Stmt::CreateTable(t2())),
        Op::In(1, Stmt::Failing { sql: "INSERT INTO nosuch VALUES (1)".into(), class: ErrClass::Bind }),
        Op::Commit(1),
        Op::Rollback(1),
        Op::DropSession(1),
        Op::Begin(2),
        Op::In(2, ins(8, "h")),
        Op::Commit(2),
        Op::Rollback(2),
        Op::Flush,
    ];
    if !quick {
        alpha.push(Op::In(1, Stmt::Insert { table: "t".into(), rows: vec![vec![i(4), tx(&big('L'))]] }));
        alpha.push(Op::Vacuum);
    }
    let mut searches = vec![];
    for (cache, label) in [(10000usize, "cache 10000"), (16usize, "cache 16 pages (dirty pages of open transactions may be written back)")] {
        let cfg = Cfg { cache, ..Cfg::default() };
        let mut pre = prefix_basic();
        pre.push(Op::Flush);
        searches.push(mk("C02", "C02", &format!("committed, rolled-back, failed and still-open transactions on a checkpointed table ({label})"), cfg, pre, alpha.clone(), if quick { 4 } else { 5 }, if quick { 30_000 } else { 400_000 }, false));
    }
    {
        let mut pre = vec![Op::Auto(Stmt::CreateTable(t_text().with_unique(&["k"]))), Op::Auto(ins(1, "a")), Op::Flush];
        pre.push(Op::Auto(ins(9, "i")));
        let alpha_u = vec![
            Op::Auto(ins(2, "b")),
            // fails on its second row (duplicate key 9) after the first row has been written to a page
            Op::Auto(Stmt::Insert { table: "t".into(), rows: vec![vec![i(3), tx("c")], vec![i(9), tx("dup")]] }),
            Op::Auto(del(1)),
            Op::Begin(1),
            Op::In(1, ins(5, "e")),
            Op::In(1, del(9)),
            Op::Commit(1),
            Op::Rollback(1),
            Op::DropSession(1),
            Op::Begin(2),
            Op::In(2, ins(8, "h")),
            Op::Commit(2),
            Op::Flush,
        ];
        searches.push(mk("C02", "C02", "table with a unique index: losers and committed work, recovered rows also looked up by key", Cfg::default(), pre, alpha_u, if quick { 4 } else { 5 }, if quick { 20_000 } else { 300_000 }, false));
    }
    {
        let (pre5, mut alpha5) = straddling();
        alpha5.push(Op::Rollback(1));
        alpha5.push(Op::DropSession(1));
        searches.push(mk("C02", "C02", "seed: log block zero about 70% full; committed, rolled-back and open transactions whose records straddle the block boundary", Cfg::default(), pre5, alpha5, if quick { 4 } else { 5 }, if quick { 20_000 } else { 300_000 }, false));
    }
    for (cache, label) in [(10000usize, "cache 10000"), (4usize, "cache 4 pages: the updated page is written back before the crash")] {
        // UPDATEs of a transaction that is still open at the crash: recovery must put back every column it changed -
        // several statements on one row, on different columns and on the same column, next to committed updates.
        // (In-process the engine updates in place - the listed finding of C03 - so this search has no reads before the
        // crash, no ROLLBACK and no checkpoint while the updater is open, and judges WITHOUT that finding as a hazard.)
        let t3 = TableDef::simple("t", &[("k", ColTy::Int), ("v", ColTy::Text), ("w", ColTy::Text)]);
        let f = TableDef::simple("f", &[("k", ColTy::Int), ("v", ColTy::Text)]);
        let row = |k: i128, v: &str, w: &str| Stmt::Insert { table: "t".into(), rows: vec![vec![i(k), tx(v), tx(w)]] };
        let up = |k: i128, set: &[(&str, &str)]| Stmt::Update { table: "t".into(), set: set.iter().map(|(c, x)| (c.to_string(), tx(x))).collect(), pred: Some(("k".into(), i(k))) };
        let pre = vec![Op::Auto(Stmt::CreateTable(t3)), Op::Auto(Stmt::CreateTable(f)), Op::Auto(row(1, "a", "A")), Op::Auto(row(2, "b", "B")), Op::Flush];
        let alpha_l = vec![
            Op::Begin(1),
            Op::In(1, up(1, &[("v", "u")])),
            Op::In(1, up(1, &[("w", "x")])),
            Op::In(1, up(1, &[("v", "y")])),
            Op::In(1, up(2, &[("v", "z"), ("w", "Z")])),
            Op::Commit(1),
            Op::Auto(up(2, &[("w", "c")])),
            Op::Auto(Stmt::Insert { table: "f".into(), rows: vec![vec![i(4), tx(&big('L'))]] }),
        ];
        let mut s = mk("C02", "C02", &format!("UPDATEs of a transaction still open at the crash: several statements on one row, other columns and the same column, next to committed updates ({label})"), Cfg { cache, ..Cfg::default() }, pre, alpha_l, if quick { 5 } else { 6 }, if quick { 20_000 } else { 300_000 }, false);
        if let Some(h) = s.params["seq"]["hazards"].as_array_mut() {
            h.retain(|x| x.as_str() != Some(KF_UPDATE_IN_PLACE));
        }
        s.params["skip_close_with_open_session"] = serde_json::Value::Bool(true);
        searches.push(s);
    }
    run_searches(
        "C02",
        tier,
        "fault_enumeration",
        searches,
        &ASSUME,
        "for every history mixing committed, rolled-back, dropped, failed and still-open transactions: every prefix of the file-mutation stream is rebuilt, opened, and every table must equal EXACTLY the model's committed state for the acknowledged commits (or that plus the whole in-flight commit): nothing of a loser, no transaction in part",
    )
}

pub fn c08(tier: &str) -> i32 {
    let quick = tier == "quick";
    let mut alpha = committed_alphabet();
    alpha.push(Op::Rollback(1));
    alpha.push(Op::In(1, del(1)));
    let mut searches = vec![];
    searches.push(mk("C08", "C08", "every crash image opens, repeated opens change nothing, recovery interrupted at every one of its own writes converges", Cfg::default(), prefix_basic(), alpha, if quick { 3 } else { 4 }, if quick { 20_000 } else { 100_000 }, true));
    {
        let (pre5, mut alpha5) = straddling();
        alpha5.push(Op::Rollback(1));
        searches.push(mk("C08", "C08", "seed: log block zero about 70% full; transactions whose records straddle the block boundary", Cfg::default(), pre5, alpha5, if quick { 3 } else { 4 }, if quick { 5_000 } else { 100_000 }, true));
    }
    run_searches(
        "C08",
        tier,
        "fault_enumeration",
        searches,
        &ASSUME,
        "for every history and every crash prefix: Database::open must succeed and all tables be readable; two further open/close cycles must not change the contents; the recovery's own file mutations are recorded and for every prefix of THEM a second image is built and opened (nesting depth 2), which must succeed and yield the contents of the uninterrupted recovery",
    )
}
