//! Thin driver over the public API of the engine: one fresh directory per database,
//! statements return a structured, comparable outcome; errors are reduced to a class.

use axmosdb::runtime::QueryResult;
use axmosdb::tcp::session::Session;
use axmosdb::{DBConfig, DataType, Database};
use serde::{Deserialize, Serialize};
use std::collections::BTreeMap;
use std::path::{Path, PathBuf};
use std::sync::atomic::{AtomicU64, AtomicUsize, Ordering};

/// A value as the harness sees it. Floats are carried as bit patterns so that
/// equality is structural (NaN == NaN) and the type is Ord.
#[derive(Debug, Clone, PartialEq, Eq, PartialOrd, Ord, Hash, Serialize, Deserialize)]
pub enum Val {
    Null,
    Bool(bool),
    Int(i128),
    Real(u64),
    Text(String),
    Bytes(Vec<u8>),
}

impl Val {
    pub fn real(f: f64) -> Val {
        Val::Real(f.to_bits())
    }
    pub fn as_f64(&self) -> Option<f64> {
        match self {
            Val::Int(i) => Some(*i as f64),
            Val::Real(b) => Some(f64::from_bits(*b)),
            _ => None,
        }
    }
    pub fn show(&self) -> String {
        match self {
            Val::Null => "NULL".into(),
            Val::Bool(b) => format!("{b}"),
            Val::Int(i) => format!("{i}"),
            Val::Real(b) => format!("{:?}", f64::from_bits(*b)),
            Val::Text(s) => {
                if s.len() > 24 {
                    format!("'{}…'({}B)", &s[..s.char_indices().nth(12).map(|x| x.0).unwrap_or(s.len())], s.len())
                } else {
                    format!("'{s}'")
                }
            }
            Val::Bytes(b) => format!("x{}B", b.len()),
        }
    }
}

pub fn from_datatype(d: &DataType) -> Val {
    match d {
        DataType::Null => Val::Null,
        DataType::Bool(b) => Val::Bool(b.0),
        DataType::Int(v) => Val::Int(v.0 as i128),
        DataType::BigInt(v) => Val::Int(v.0 as i128),
        DataType::UInt(v) => Val::Int(v.0 as i128),
        DataType::BigUInt(v) => Val::Int(v.0 as i128),
        DataType::Float(v) => Val::Real((v.0 as f64).to_bits()),
        DataType::Double(v) => Val::Real(v.0.to_bits()),
        DataType::Blob(b) => match b.data() {
            Ok(bytes) => match std::str::from_utf8(bytes) {
                Ok(s) => Val::Text(s.to_string()),
                Err(_) => Val::Bytes(bytes.to_vec()),
            },
            Err(_) => Val::Bytes(b.as_ref().to_vec()),
        },
    }
}

#[derive(Debug, Clone, Copy, PartialEq, Eq, PartialOrd, Ord, Hash, Serialize, Deserialize)]
pub enum ErrClass {
    Parse,
    Bind,
    Unique,
    NotNull,
    Constraint,
    Type,
    Conflict,
    AlreadyExists,
    NotFound,
    TxnAborted,
    OutOfCache,
    WorkerDied,
    Internal,
}

pub fn classify(msg: &str) -> ErrClass {
    let m = msg;
    if m.contains("Task channel closed unexpectedly") {
        ErrClass::WorkerDied
    } else if m.contains("parse error") || m.contains("Parse error") || m.contains("lexer") {
        ErrClass::Parse
    } else if m.contains("binder error") || m.contains("analyzer") {
        ErrClass::Bind
    } else if m.contains("constraint validation error") {
        let l = m.to_ascii_lowercase();
        if l.contains("unique") || l.contains("primary") || l.contains("duplicate") {
            ErrClass::Unique
        } else if l.contains("null") {
            ErrClass::NotNull
        } else {
            ErrClass::Constraint
        }
    } else if m.contains("conflict on tuple") || m.contains("write-write") {
        ErrClass::Conflict
    } else if m.contains("Buffer pool got out of memory") {
        ErrClass::OutOfCache
    } else if m.contains("already exists") {
        ErrClass::AlreadyExists
    } else if m.contains("not found") || m.contains("Not found") {
        ErrClass::NotFound
    } else if m.contains("type error") {
        ErrClass::Type
    } else if m.contains("ransaction") && (m.contains("abort") || m.contains("not active") || m.contains("not found")) {
        ErrClass::TxnAborted
    } else {
        ErrClass::Internal
    }
}

#[derive(Debug, Clone, PartialEq, Eq, Serialize, Deserialize)]
pub enum Out {
    Rows(Vec<Vec<Val>>),
    Count(u64),
    Ddl,
    Err(ErrClass, String),
}

impl Out {
    pub fn is_err(&self) -> bool {
        matches!(self, Out::Err(..))
    }
    pub fn err_class(&self) -> Option<ErrClass> {
        match self {
            Out::Err(c, _) => Some(*c),
            _ => None,
        }
    }
    pub fn show(&self) -> String {
        match self {
            Out::Rows(r) => format!(
                "rows[{}]",
                r.iter()
                    .map(|row| format!("({})", row.iter().map(|v| v.show()).collect::<Vec<_>>().join(",")))
                    .collect::<Vec<_>>()
                    .join(" ")
            ),
            Out::Count(n) => format!("count={n}"),
            Out::Ddl => "ddl-ok".into(),
            Out::Err(c, m) => format!("ERR<{c:?}>: {}", m.chars().take(160).collect::<String>()),
        }
    }
}

pub fn from_query_result(r: QueryResult) -> Out {
    match r {
        QueryResult::Rows(rows) => Out::Rows(
            rows.iterrows()
                .map(|row| row.as_slice().iter().map(from_datatype).collect())
                .collect(),
        ),
        QueryResult::RowsAffected(n) => Out::Count(n),
        QueryResult::Ddl(_) => Out::Ddl,
    }
}

// -------------------------------------------------------------------------------------
// scratch directories

static SCRATCH_COUNTER: AtomicUsize = AtomicUsize::new(0);

pub fn scratch_root() -> PathBuf {
    let base = if Path::new("/dev/shm").is_dir() && std::env::var("VERIF_NO_SHM").is_err() {
        PathBuf::from("/dev/shm")
    } else {
        std::env::temp_dir()
    };
    base.join(format!("verif-{}", std::process::id()))
}

pub fn fresh_dir(tag: &str) -> PathBuf {
    let n = SCRATCH_COUNTER.fetch_add(1, Ordering::Relaxed);
    let d = scratch_root().join(format!("{tag}-{n}"));
    let _ = std::fs::remove_dir_all(&d);
    std::fs::create_dir_all(&d).expect("create scratch dir");
    d
}

pub fn cleanup_scratch() {
    let _ = std::fs::remove_dir_all(scratch_root());
}

// -------------------------------------------------------------------------------------
// panic accounting: a panic inside a pool job does not unwind into the caller, so the
// only way to notice it is a process-wide hook.

pub static PANICS: AtomicU64 = AtomicU64::new(0);
static LAST_PANIC: parking_lot_free::Slot = parking_lot_free::Slot::new();

mod parking_lot_free {
    use std::sync::Mutex;
    pub struct Slot(Mutex<String>);
    impl Slot {
        pub const fn new() -> Self {
            Slot(Mutex::new(String::new()))
        }
        pub fn set(&self, s: String) {
            if let Ok(mut g) = self.0.lock() {
                *g = s;
            }
        }
        pub fn get(&self) -> String {
            self.0.lock().map(|g| g.clone()).unwrap_or_default()
        }
    }
}

pub fn install_panic_counter() {
    std::panic::set_hook(Box::new(|info| {
        PANICS.fetch_add(1, Ordering::SeqCst);
        let loc = info.location().map(|l| format!("{}:{}", l.file(), l.line())).unwrap_or_default();
        let msg = if let Some(s) = info.payload().downcast_ref::<&str>() {
            s.to_string()
        } else if let Some(s) = info.payload().downcast_ref::<String>() {
            s.clone()
        } else {
            "<non-string panic>".to_string()
        };
        LAST_PANIC.set(format!("{loc}: {}", msg.chars().take(200).collect::<String>()));
        if std::env::var("VERIF_SHOW_PANICS").is_ok() {
            eprintln!("[panic] {loc}: {msg}\n{}", std::backtrace::Backtrace::force_capture());
        }
    }));
}

pub fn panics() -> u64 {
    PANICS.load(Ordering::SeqCst)
}
pub fn last_panic() -> String {
    LAST_PANIC.get()
}

// -------------------------------------------------------------------------------------

#[derive(Debug, Clone, Copy, PartialEq, Eq, Serialize, Deserialize)]
pub struct Cfg {
    pub page_size: usize,
    pub cache: usize,
    pub pool: usize,
    pub min_keys: usize,
    pub siblings: usize,
}

impl Default for Cfg {
    fn default() -> Self {
        Cfg { page_size: 4096, cache: 10000, pool: 2, min_keys: 3, siblings: 2 }
    }
}

impl Cfg {
    pub fn to_db(&self) -> DBConfig {
        DBConfig::new(self.page_size, self.cache, self.pool, self.min_keys, self.siblings)
    }
}

/// One database instance plus the sessions opened on it.
pub struct Db {
    pub dir: PathBuf,
    pub cfg: Cfg,
    db: Option<Database>,
    sessions: BTreeMap<u8, Session>,
    /// set when a worker died or an operation panicked: the instance is not used further
    pub poisoned: bool,
}

impl Db {
    /// Whole-file page census through the verif facade (C11 at SQL level): every page 1..total_pages must be exactly
    /// one of: node of exactly one tree reachable from the catalogue (tables, indexes, the two catalogue trees), link of
    /// the overflow chain of exactly one LEAF cell, member of the free list. Interior dividers that carry an overflow
    /// pointer are non-owning copies (listed alias finding). Only meaningful when no invisible relation exists (the
    /// caller checks that with the model): the catalogue walk sees the relations of a fresh snapshot.
    pub fn page_census(&self) -> Result<Vec<String>, String> {
        use axmosdb::verif::facade::{catalog_roots, dump_btree_page, dump_overflow_page, free_list, header_of, META_INDEX_ROOT, META_TABLE_ROOT};
        let Some(db) = self.db.as_ref() else { return Err("database closed".into()) };
        catch(|| -> Result<Vec<String>, String> {
            let pager = db.pager().clone();
            let total = header_of(&pager).total_pages;
            let mut owners: BTreeMap<u64, Vec<String>> = BTreeMap::new();
            let mut roots = vec![("meta_table".to_string(), META_TABLE_ROOT), ("meta_index".to_string(), META_INDEX_ROOT)];
            for e in catalog_roots(db)? {
                roots.push((e.name.clone(), e.root));
            }
            let mut problems = vec![];
            for (name, root) in roots {
                let mut stack = vec![root];
                let mut guard = 0u64;
                while let Some(id) = stack.pop() {
                    guard += 1;
                    if guard > total + 8 {
                        problems.push(format!("tree {name}: more nodes than the file has pages (cycle)"));
                        break;
                    }
                    owners.entry(id).or_default().push(format!("node of {name}"));
                    let page = match dump_btree_page(&pager, id) {
                        Ok(p) => p,
                        Err(e) => {
                            problems.push(format!("tree {name}: page {id} unreadable as a tree page: {e}"));
                            continue;
                        }
                    };
                    if page.is_leaf {
                        for (slot, cell) in page.cells.iter().enumerate() {
                            let mut cur = cell.overflow_page;
                            let mut steps = 0u64;
                            while let Some(o) = cur {
                                steps += 1;
                                if steps > total {
                                    problems.push(format!("cyclic overflow chain at {name} page {id} slot {slot}"));
                                    break;
                                }
                                owners.entry(o).or_default().push(format!("chain of {name} page {id} slot {slot}"));
                                cur = match dump_overflow_page(&pager, o) {
                                    Ok(x) => x.0,
                                    Err(e) => {
                                        problems.push(format!("overflow page {o} of {name} unreadable: {e}"));
                                        None
                                    }
                                };
                            }
                        }
                    } else {
                        for cell in &page.cells {
                            if let Some(c) = cell.left_child {
                                stack.push(c);
                            }
                        }
                        if let Some(c) = page.right_child {
                            stack.push(c);
                        }
                    }
                }
            }
            for id in free_list(&pager)? {
                owners.entry(id).or_default().push("free list".to_string());
            }
            for id in 1..total {
                match owners.get(&id) {
                    None => problems.push(format!("page {id} has no owner (in no tree, in no overflow chain of a leaf cell, not in the free list): lost")),
                    Some(o) if o.len() != 1 => problems.push(format!("page {id} has {} owners: {}", o.len(), o.join(" + "))),
                    _ => {}
                }
            }
            for id in owners.keys() {
                if *id == 0 || *id >= total {
                    problems.push(format!("page {id} is referenced but the file has only {total} pages"));
                }
            }
            Ok(problems)
        })
        .map_err(|e| format!("census panicked: {e}"))?
    }
}

fn catch<T>(f: impl FnOnce() -> T) -> Result<T, String> {
    std::panic::catch_unwind(std::panic::AssertUnwindSafe(f)).map_err(|e| {
        if let Some(s) = e.downcast_ref::<&str>() {
            s.to_string()
        } else if let Some(s) = e.downcast_ref::<String>() {
            s.clone()
        } else {
            "panic".to_string()
        }
    })
}

impl Db {
    pub fn path_in(dir: &Path) -> PathBuf {
        dir.join("t.axm")
    }

    pub fn create(tag: &str, cfg: Cfg) -> Result<Db, String> {
        let dir = fresh_dir(tag);
        Self::create_in(dir, cfg)
    }

    pub fn create_in(dir: PathBuf, cfg: Cfg) -> Result<Db, String> {
        let p = Self::path_in(&dir);
        match catch(|| Database::create(&p, cfg.to_db())) {
            Ok(Ok(db)) => Ok(Db { dir, cfg, db: Some(db), sessions: BTreeMap::new(), poisoned: false }),
            Ok(Err(e)) => Err(format!("create failed: {e}")),
            Err(p) => Err(format!("create panicked: {p}")),
        }
    }

    /// Open an existing database directory.
    pub fn open_in(dir: PathBuf, cfg: Cfg) -> Result<Db, String> {
        let p = Self::path_in(&dir);
        let before = panics();
        match catch(|| Database::open(&p, cfg.to_db())) {
            Ok(Ok(db)) => {
                if panics() != before {
                    // a pool worker died during recovery but open still returned Ok
                    return Err(format!("open: panic in worker: {}", last_panic()));
                }
                Ok(Db { dir, cfg, db: Some(db), sessions: BTreeMap::new(), poisoned: false })
            }
            Ok(Err(e)) => {
                let extra = if panics() != before { format!(" [panic: {}]", last_panic()) } else { String::new() };
                Err(format!("open failed: {e}{extra}"))
            }
            Err(p) => Err(format!("open panicked: {p}")),
        }
    }

    pub fn raw(&self) -> &Database {
        self.db.as_ref().expect("database closed")
    }

    fn wrap(&mut self, r: Result<Result<QueryResult, String>, String>, before: u64) -> Out {
        let out = match r {
            Ok(Ok(q)) => from_query_result(q),
            Ok(Err(m)) => Out::Err(classify(&m), m),
            Err(p) => Out::Err(ErrClass::WorkerDied, format!("panic in caller: {p}")),
        };
        if panics() != before {
            self.poisoned = true;
            if let Out::Err(ErrClass::WorkerDied, m) = &out {
                return Out::Err(ErrClass::WorkerDied, format!("{m} [panic: {}]", last_panic()));
            }
            return Out::Err(ErrClass::WorkerDied, format!("panic during call that returned {}: {}", out.show(), last_panic()));
        }
        out
    }

    /// Autocommit statement.
    pub fn exec(&mut self, sql: &str) -> Out {
        let before = panics();
        let db = self.db.as_ref().expect("database closed");
        let r = catch(|| db.execute(sql).map_err(|e| e.to_string()));
        self.wrap(r, before)
    }

    pub fn exec_batch(&mut self, sqls: &[String]) -> Result<Vec<Out>, Out> {
        let before = panics();
        let db = self.db.as_ref().expect("database closed");
        let refs: Vec<&str> = sqls.iter().map(|s| s.as_str()).collect();
        let r = catch(|| db.execute_batch(&refs).map_err(|e| e.to_string()));
        let died = panics() != before;
        if died {
            self.poisoned = true;
        }
        match r {
            Ok(Ok(v)) if !died => Ok(v.into_iter().map(from_query_result).collect()),
            Ok(Ok(_)) => Err(Out::Err(ErrClass::WorkerDied, format!("panic: {}", last_panic()))),
            Ok(Err(m)) => {
                if died {
                    Err(Out::Err(ErrClass::WorkerDied, format!("{m} [panic: {}]", last_panic())))
                } else {
                    Err(Out::Err(classify(&m), m))
                }
            }
            Err(p) => Err(Out::Err(ErrClass::WorkerDied, format!("panic in caller: {p}"))),
        }
    }

    pub fn explain(&mut self, sql: &str) -> Result<String, String> {
        let before = panics();
        let db = self.db.as_ref().expect("database closed");
        let r = catch(|| db.explain(sql).map_err(|e| e.to_string()));
        if panics() != before {
            self.poisoned = true;
            return Err(format!("panic: {}", last_panic()));
        }
        match r {
            Ok(x) => x,
            Err(p) => Err(format!("panic: {p}")),
        }
    }

    pub fn has_session(&self, s: u8) -> bool {
        self.sessions.contains_key(&s)
    }

    pub fn begin(&mut self, s: u8) -> Result<(), String> {
        let before = panics();
        let db = self.db.as_ref().expect("database closed");
        let r = catch(|| db.session().map_err(|e| e.to_string()));
        if panics() != before {
            self.poisoned = true;
        }
        match r {
            Ok(Ok(sess)) => {
                self.sessions.insert(s, sess);
                Ok(())
            }
            Ok(Err(m)) => Err(m),
            Err(p) => Err(format!("panic: {p}")),
        }
    }

    pub fn sexec(&mut self, s: u8, sql: &str) -> Out {
        let before = panics();
        let sess = self.sessions.get_mut(&s).expect("no such session");
        let r = catch(|| sess.execute(sql).map_err(|e| e.to_string()));
        self.wrap(r, before)
    }

    pub fn commit(&mut self, s: u8) -> Result<(), (ErrClass, String)> {
        let before = panics();
        let mut sess = self.sessions.remove(&s).expect("no such session");
        let r = catch(|| sess.commit_transaction().map_err(|e| e.to_string()));
        // The session object is dropped here; its Drop calls abort_transaction, which on a
        // committed transaction is expected to be harmless.
        let _ = catch(move || drop(sess));
        if panics() != before {
            self.poisoned = true;
            return Err((ErrClass::WorkerDied, format!("panic: {}", last_panic())));
        }
        match r {
            Ok(Ok(())) => Ok(()),
            Ok(Err(m)) => Err((classify(&m), m)),
            Err(p) => Err((ErrClass::WorkerDied, p)),
        }
    }

    pub fn rollback(&mut self, s: u8) -> Result<(), (ErrClass, String)> {
        let before = panics();
        let mut sess = self.sessions.remove(&s).expect("no such session");
        let r = catch(|| sess.abort_transaction().map_err(|e| e.to_string()));
        let _ = catch(move || drop(sess));
        if panics() != before {
            self.poisoned = true;
            return Err((ErrClass::WorkerDied, format!("panic: {}", last_panic())));
        }
        match r {
            Ok(Ok(())) => Ok(()),
            Ok(Err(m)) => Err((classify(&m), m)),
            Err(p) => Err((ErrClass::WorkerDied, p)),
        }
    }

    /// Drop the session object without calling commit/rollback.
    pub fn drop_session(&mut self, s: u8) {
        let before = panics();
        if let Some(sess) = self.sessions.remove(&s) {
            let _ = catch(move || drop(sess));
        }
        if panics() != before {
            self.poisoned = true;
        }
    }

    pub fn vacuum(&mut self) -> Result<(), (ErrClass, String)> {
        let before = panics();
        let db = self.db.as_ref().expect("database closed");
        let r = catch(|| db.vacuum().map(|_| ()).map_err(|e| e.to_string()));
        if panics() != before {
            self.poisoned = true;
            return Err((ErrClass::WorkerDied, format!("panic: {}", last_panic())));
        }
        match r {
            Ok(Ok(())) => Ok(()),
            Ok(Err(m)) => Err((classify(&m), m)),
            Err(p) => Err((ErrClass::WorkerDied, p)),
        }
    }

    pub fn analyze(&mut self) -> Result<(), (ErrClass, String)> {
        let before = panics();
        let db = self.db.as_ref().expect("database closed");
        let r = catch(|| db.analyze(1.0, 10_000).map_err(|e| e.to_string()));
        if panics() != before {
            self.poisoned = true;
            return Err((ErrClass::WorkerDied, format!("panic: {}", last_panic())));
        }
        match r {
            Ok(Ok(())) => Ok(()),
            Ok(Err(m)) => Err((classify(&m), m)),
            Err(p) => Err((ErrClass::WorkerDied, p)),
        }
    }

    pub fn flush(&mut self) -> Result<(), String> {
        let before = panics();
        let db = self.db.as_ref().expect("database closed");
        let r = catch(|| db.flush().map_err(|e| e.to_string()));
        if panics() != before {
            self.poisoned = true;
        }
        match r {
            Ok(x) => x,
            Err(p) => Err(format!("panic: {p}")),
        }
    }

    /// Clean close: sessions are dropped (rolled back) first, then the handle (which checkpoints).
    pub fn close(&mut self) {
        let keys: Vec<u8> = self.sessions.keys().copied().collect();
        for k in keys {
            self.drop_session(k);
        }
        if let Some(db) = self.db.take() {
            let _ = catch(move || drop(db));
        }
    }

    /// Simulated process death: the handle is leaked, so no checkpoint and no Drop runs.
    pub fn crash(&mut self) {
        let ss = std::mem::take(&mut self.sessions);
        for (_, s) in ss {
            std::mem::forget(s);
        }
        if let Some(db) = self.db.take() {
            std::mem::forget(db);
        }
    }

    pub fn reopen(&mut self, cfg: Cfg) -> Result<(), String> {
        self.close();
        let mut d = Db::open_in(self.dir.clone(), cfg)?;
        self.db = d.db.take();
        self.cfg = cfg;
        // `d` is only a carrier for the handle: it must not run Db::drop, which removes the directory
        std::mem::forget(d);
        Ok(())
    }

    /// Take over the engine handle of another wrapper (used after a simulated crash + open).
    pub fn replace_handle(&mut self, other: &mut Db) {
        self.db = other.db.take();
        self.poisoned = false;
    }

    pub fn file_len(&self) -> u64 {
        std::fs::metadata(Self::path_in(&self.dir)).map(|m| m.len()).unwrap_or(0)
    }

    pub fn remove_files(&mut self) {
        let _ = std::fs::remove_dir_all(&self.dir);
    }
}

impl Drop for Db {
    fn drop(&mut self) {
        if self.poisoned {
            // a dead worker may leave locks held; never run the checkpoint in Drop on it
            self.crash();
        } else {
            self.close();
        }
        self.remove_files();
    }
}
