//! Component-level checks through the `verif` facade (C17 ...).

use crate::engines::btree::{BtParams, Kind, Sz, TOp};
use crate::engines::wal::{Size, WOp, WalParams};
use crate::sqldrv::Cfg;
use crate::findings::Findings;
use crate::report::{run_searches, Search};

fn wal_search(label: &str, prefix: Vec<WOp>, alphabet: Vec<WOp>, depth: usize, budget: usize) -> Search {
    let findings = Findings::load();
    let p = WalParams { prefix, alphabet: alphabet.clone(), triggers: findings.ids_for("C17").into_iter().collect() };
    Search { label: label.into(), engine: "wal", params: serde_json::to_value(&p).unwrap(), alphabet_shown: alphabet.iter().map(|o| o.show()).collect(), max_depth: depth, budget, timeout_s: 120 }
}

pub fn c17(tier: &str) -> i32 {
    let quick = tier == "quick";
    let alphabet = vec![
        WOp::Append(Size::Header),
        WOp::Append(Size::Small),
        WOp::Append(Size::Medium),
        WOp::Append(Size::ExactFit),
        WOp::Append(Size::OneTooMany),
        WOp::Append(Size::BlockMax),
        WOp::Append(Size::BlockMaxRedoOnly),
        WOp::Append(Size::BlockMaxUndoOnly),
        WOp::Append(Size::TooLarge),
        WOp::Force,
        WOp::Reopen,
        WOp::CrashReopen,
        WOp::Truncate,
    ];
    let mut searches = vec![];
    searches.push(wal_search("empty log", vec![], alphabet.clone(), if quick { 6 } else { 7 }, if quick { 400_000 } else { 5_000_000 }));
    searches.push(wal_search("seed: block zero about 75% full (3 medium records), forced", vec![WOp::Append(Size::Medium), WOp::Append(Size::Medium), WOp::Append(Size::Medium), WOp::Force], alphabet.clone(), if quick { 4 } else { 6 }, if quick { 100_000 } else { 3_000_000 }));
    searches.push(wal_search("seed: block zero exactly full and one full data block, forced once", vec![WOp::Append(Size::ExactFit), WOp::Append(Size::BlockMax), WOp::Force], alphabet.clone(), if quick { 3 } else { 5 }, if quick { 50_000 } else { 2_000_000 }));
    searches.push(wal_search("seed: nothing forced yet, block zero full, one full block queued, one block being filled", vec![WOp::Append(Size::ExactFit), WOp::Append(Size::BlockMax), WOp::Append(Size::Medium)], alphabet.clone(), if quick { 4 } else { 6 }, if quick { 100_000 } else { 3_000_000 }));
    run_searches(
        "C17",
        tier,
        "model_checking",
        searches,
        &[
            "the log is driven through the verif facade exactly as Pager::push_to_log drives it (sequence number = last_lsn()+1)",
            "size classes are relative to the block being filled: header-only, 100 B, 10 000 B, exact fit, one alignment unit too many, per-block maximum, maximum + 8 (must be rejected)",
            "after every force and every clean or crash reopen the whole log is read back with read-ahead 1, 2, 4 and 16 blocks",
            "after a crash reopen records that were appended but not forced may be missing, but only as a suffix",
        ],
        "BFS over append(size class)/force/close+open/crash+open/truncate sequences, deduplicated on (record sizes, forced count, fill level of the current block, blocks left behind); oracle = list model",
    )
}

fn bt_search(prop: &str, label: &str, cfg: Cfg, kind: Kind, prefix: Vec<TOp>, alphabet: Vec<TOp>, depth: usize, budget: usize) -> Search {
    let findings = Findings::load();
    let audit_prefix = prefix.len() > 1 || prefix.is_empty();
    let p = BtParams { mode: prop.into(), cfg, kind, prefix, alphabet: alphabet.clone(), triggers: findings.ids_for(prop).into_iter().collect(), audit_prefix };
    Search { label: label.into(), engine: "btree", params: serde_json::to_value(&p).unwrap(), alphabet_shown: alphabet.iter().map(|o| o.show()).collect(), max_depth: depth, budget, timeout_s: 180 }
}

fn cfg(page: usize, min_keys: usize, siblings: usize) -> Cfg {
    Cfg { page_size: page, cache: 10000, pool: 1, min_keys, siblings }
}

fn c10_alphabet(keys: &[u8], sizes: &[Sz]) -> Vec<TOp> {
    let mut a = vec![];
    for k in keys {
        for s in sizes {
            a.push(TOp::Put(*k, *s));
        }
        a.push(TOp::Remove(*k));
    }
    // the non-upsert entry points on one key
    a.push(TOp::Insert(keys[0], sizes[0]));
    a.push(TOp::Update(keys[0], *sizes.last().unwrap()));
    a
}

/// operations that move many keys at once, so that interior levels rebalance within a few steps
fn run_alphabet(sz: Sz) -> Vec<TOp> {
    vec![
        TOp::InsRun(0, 7, sz),
        TOp::InsRun(0, 14, sz),
        TOp::InsRun(1, 7, sz),
        TOp::InsRun(2, 7, sz),
        TOp::InsRun(1, 1, sz),
        TOp::InsRun(2, 1, sz),
        TOp::RemRun(0, 7),
        TOp::RemRun(1, 7),
        TOp::RemRun(2, 14),
        // the same through Btree::remove_tuple, the removal path of VACUUM and of the catalogue
        TOp::RemRunT(0, 7),
        TOp::RemRunT(0, 14),
        TOp::RemRunT(1, 7),
        TOp::Put(1, Sz::Tiny),
        TOp::Put(5, sz),
        TOp::Remove(5),
    ]
}

pub fn c10(tier: &str) -> i32 {
    let quick = tier == "quick";
    let mut searches = vec![];
    let sizes_all = [Sz::Tiny, Sz::Quarter, Sz::Third, Sz::OneHalf, Sz::Three];
    // from the empty tree: every size class on four colliding keys
    searches.push(bt_search("C10", "empty tree, BigUInt keys, page 4096/min_keys 3/siblings 2, all size classes on 4 keys", cfg(4096, 3, 2), Kind::BigUInt, vec![], c10_alphabet(&[1, 2, 3, 4], &sizes_all), if quick { 4 } else { 6 }, if quick { 150_000 } else { 6_000_000 }));
    // multi-level trees of 300-byte-class rows, moved around by runs of inserts/removes
    searches.push(bt_search("C10", "seed: 120 ascending keys of 200 B (3 levels), runs of 1/7/14 inserts and removes in three key regions, siblings 1", cfg(4096, 3, 1), Kind::BigUInt, vec![TOp::SeedRun(120, Sz::S200, false)], run_alphabet(Sz::S200), if quick { 4 } else { 5 }, if quick { 60_000 } else { 2_000_000 }));
    searches.push(bt_search("C10", "seed: 120 descending keys of 200 B, siblings 2", cfg(4096, 3, 2), Kind::BigUInt, vec![TOp::SeedRun(120, Sz::S200, true)], run_alphabet(Sz::S200), if quick { 3 } else { 4 }, if quick { 60_000 } else { 2_000_000 }));
    // one insert at EVERY gap of the seed, after a run that grew the low end (interior-level rebalancing followed by a leaf rebalance anywhere)
    for (sz, name) in [(Sz::S300, "300 B"), (Sz::S200, "200 B")] {
        let mut a = vec![TOp::InsRun(0, 7, sz), TOp::InsRun(0, 14, sz), TOp::RemRun(0, 14)];
        for g in 0..120u8 {
            a.push(TOp::InsAt(g, sz));
        }
        searches.push(bt_search("C10", &format!("seed: 120 ascending keys of {name}, siblings 1: low-end runs then one insert above each of the 120 seed keys"), cfg(4096, 3, 1), Kind::BigUInt, vec![TOp::SeedRun(120, sz, false)], a, 2, if quick { 40_000 } else { 400_000 }));
    }
    // multi-level trees of LARGE rows (a quarter / a third of a page, and rows with overflow chains): separators are as
    // large as the rows, so interior pages hold three or four of them
    for (seed_sz, n, name) in [(Sz::Third, 14u16, "14 keys of 1/3 page"), (Sz::Quarter, 24, "24 keys of 1/4 page"), (Sz::OneHalf, 12, "12 keys of 1.5 pages")] {
        let mut a = vec![];
        for sz in [Sz::Third, Sz::Quarter, Sz::Tiny] {
            a.push(TOp::InsRun(0, 1, sz));
            a.push(TOp::InsRun(1, 1, sz));
            a.push(TOp::InsRun(2, 3, sz));
            a.push(TOp::Put(1, sz));
            a.push(TOp::Put(5, sz));
        }
        a.push(TOp::InsRun(1, 1, Sz::OneHalf));
        a.push(TOp::RemRun(0, 3));
        a.push(TOp::RemRun(1, 1));
        a.push(TOp::Remove(5));
        searches.push(bt_search("C10", &format!("seed: {name} (multi-level tree of large rows): single inserts and runs of 1/3-page, 1/4-page and tiny rows in three key regions, growing and shrinking updates, removes"), cfg(4096, 3, 2), Kind::BigUInt, vec![TOp::SeedRun(n, seed_sz, false)], a, if quick { 3 } else { 5 }, if quick { 60_000 } else { 2_000_000 }));
    }
    // text keys of EVERY length around and beyond what a cell keeps in its page (the key then continues in the overflow chain)
    for (mk_, sib) in [(3usize, 2usize), (8, 1)] {
        let mut lens: Vec<u16> = (1..=1500).collect();
        lens.extend([1600, 2000, 3000, 4000, 4096, 4100, 5000, 9000, 20000]);
        let a: Vec<TOp> = lens.iter().map(|l| TOp::KeyLen(*l)).collect();
        searches.push(bt_search("C10", &format!("text keys of every length 1..1500 bytes (and 1600..20000): three keys sharing all but the last byte, one with a 1.5-page payload; min_keys {mk_}, siblings {sib}"), cfg(4096, mk_, sib), Kind::Text, vec![], a, 1, 100_000));
    }
    // key types
    for (kind, name) in [(Kind::Int, "Int (negative keys)"), (Kind::Text, "Text (prefix-related keys)"), (Kind::IntText, "composite (Int, Text)")] {
        searches.push(bt_search("C10", &format!("seed: 40 keys of 200 B, {name} keys: small-key alphabet + runs"), cfg(4096, 3, 2), kind, vec![TOp::SeedRun(40, Sz::S200, false)], {
            let mut a = c10_alphabet(&[0, 1, 2, 3], &[Sz::Tiny, Sz::Quarter]);
            a.push(TOp::InsRun(0, 7, Sz::S200));
            a.push(TOp::RemRun(1, 7));
            a
        }, if quick { 2 } else { 4 }, if quick { 40_000 } else { 2_000_000 }));
    }
    if !quick {
        searches.push(bt_search("C10", "geometry page 8192/min_keys 4/siblings 3, seed 200 keys of 200 B", cfg(8192, 4, 3), Kind::BigUInt, vec![TOp::SeedRun(200, Sz::S200, false)], run_alphabet(Sz::S200), 4, 2_000_000));
        searches.push(bt_search("C10", "seed: 6 rows of 1.5 pages (every cell has an overflow chain), all size classes", cfg(4096, 3, 2), Kind::BigUInt, vec![TOp::SeedRun(6, Sz::OneHalf, false)], c10_alphabet(&[1, 5], &sizes_all), 4, 2_000_000));
    }
    run_searches(
        "C10",
        tier,
        "model_checking",
        searches,
        &[
            "the tree is driven through the verif facade (Btree::insert/upsert/update/remove/search/iter_forward/into_iter_backward over a real Pager); payload size classes are relative to the page size",
            "after EVERY operation: lookup of every key ever used, forward and backward scan against a BTreeMap model; page-graph audit computed in the harness from raw page dumps: keys strictly increasing within pages and across the leaf chain, separators bound their subtrees, all leaves at one depth, next/previous sibling links equal the key order, no empty non-root page",
            "states are deduplicated on a hash of (model contents, full page-graph digest including page numbers and the free list)",
            "minimum-occupancy (underflow/overflow thresholds) is not asserted: only emptiness of non-root pages",
            "multi-level seeds: 120 rows of 200-300 bytes (three levels) and 12-24 rows of a quarter page, a third of a page and 1.5 pages (separators as large as the rows)",
        ],
        "BFS over put/insert/update/remove sequences with payload size classes {8 B, 200 B, 1/4 page, 1/3 page, 1.5 pages, 3 pages} from the empty tree and over runs of 1/7/14 inserts and removes in three key regions from pre-grown 3-level trees, for BigUInt, Int, Text and composite keys and several tree geometries",
    )
}

pub fn c11_component_searches(quick: bool) -> Vec<Search> {
    let mut alpha = vec![];
    for k in [1u8, 2, 3] {
        alpha.push(TOp::Put(k, Sz::Tiny));
        alpha.push(TOp::Put(k, Sz::Third));
        alpha.push(TOp::Put(k, Sz::OneHalf));
        alpha.push(TOp::Put(k, Sz::Three));
        alpha.push(TOp::Remove(k));
    }
    alpha.push(TOp::Put2(1, Sz::Three));
    alpha.push(TOp::Put2(2, Sz::Third));
    alpha.push(TOp::Remove2(1));
    alpha.push(TOp::Dealloc2);
    let mut alpha2 = run_alphabet(Sz::S200);
    alpha2.push(TOp::Grow2(40, Sz::S200));
    alpha2.push(TOp::Grow2(7, Sz::S200));
    alpha2.push(TOp::Put2(1, Sz::Three));
    alpha2.push(TOp::Dealloc2);
    // a cache smaller than one overflow chain: building and releasing a 10-page chain under an 8-page cache
    let mut alpha3 = vec![];
    for k in [1u8, 2] {
        alpha3.push(TOp::Put(k, Sz::Ten));
        alpha3.push(TOp::Put(k, Sz::Tiny));
        alpha3.push(TOp::Put(k, Sz::Three));
        alpha3.push(TOp::Remove(k));
    }
    alpha3.push(TOp::Put2(1, Sz::Ten));
    alpha3.push(TOp::Remove2(1));
    alpha3.push(TOp::Dealloc2);
    // multi-leaf trees whose every cell has an overflow chain; removal through remove_tuple (VACUUM's path) of single
    // keys and of runs (several removals in a row merge leaves and clone fresh dividers)
    let mut alpha4 = vec![];
    for (r, c) in [(0u8, 1u8), (0, 3), (1, 1), (1, 2), (2, 1), (2, 3)] {
        alpha4.push(TOp::RemRunT(r, c));
        alpha4.push(TOp::RemRun(r, c));
    }
    alpha4.push(TOp::InsRun(1, 2, Sz::OneHalf));
    alpha4.push(TOp::InsRun(2, 3, Sz::Three));
    alpha4.push(TOp::Put(5, Sz::Tiny));
    alpha4.push(TOp::Put(5, Sz::Three));
    let small_cache = Cfg { page_size: 4096, cache: 8, pool: 1, min_keys: 3, siblings: 2 };
    vec![
        bt_search("C11", "seed: 12 rows of 1.5 pages (multi-leaf, every cell and every divider carries an overflow pointer): removal of single keys and of runs through Btree::remove_tuple (VACUUM's path) and through Btree::remove, re-inserts", cfg(4096, 3, 2), Kind::BigUInt, vec![TOp::SeedRun(12, Sz::OneHalf, false)], alpha4.clone(), if quick { 3 } else { 5 }, if quick { 60_000 } else { 3_000_000 }),
        bt_search("C11", "seed: 8 rows of 3 pages, siblings 1: the same removal alphabet", cfg(4096, 3, 1), Kind::BigUInt, vec![TOp::SeedRun(8, Sz::Three, false)], alpha4, if quick { 3 } else { 4 }, if quick { 60_000 } else { 3_000_000 }),
        bt_search("C11", "8-page cache, 10-page overflow chains: build, shrink, grow, remove, whole-tree dealloc", small_cache, Kind::BigUInt, vec![], alpha3, if quick { 4 } else { 6 }, if quick { 60_000 } else { 3_000_000 }),
        bt_search("C11", "two trees sharing a pager: overflow rows, shrinking/growing updates, removes, whole-tree dealloc (from empty)", cfg(4096, 3, 2), Kind::BigUInt, vec![], alpha, if quick { 4 } else { 6 }, if quick { 150_000 } else { 6_000_000 }),
        bt_search("C11", "multi-level first tree (120 keys of 200 B) + second tree grown and deallocated: runs of inserts/removes, whole-tree dealloc of a multi-level tree", cfg(4096, 3, 2), Kind::BigUInt, vec![TOp::SeedRun(120, Sz::S200, false)], alpha2, if quick { 3 } else { 5 }, if quick { 60_000 } else { 3_000_000 }),
    ]
}

/// C11 at SQL level: the whole file is accounted for (catalogue trees, every table and index, overflow chains, free
/// list) at the end of every history of DDL and DML with small, page-filling and multi-page rows, growing and shrinking
/// updates, deletes, rollbacks, VACUUM, DROP TABLE and reopen.
fn c11_sql_searches(quick: bool) -> Vec<Search> {
    use crate::model::{ColTy, Op, Stmt, TableDef};
    use crate::sqldrv::Val;
    use crate::props_seq::mk_search;
    let i = |k: i128| Val::Int(k);
    let txt = |n: usize, ch: char| Val::Text(std::iter::repeat(ch).take(n).collect());
    let d = TableDef::simple("d", &[("k", ColTy::Int), ("s", ColTy::Text)]);
    let x = TableDef::simple("x", &[("k", ColTy::Int), ("s", ColTy::Text)]).with_unique(&["k"]);
    let ins = |t: &str, k: i128, n: usize, ch: char| Stmt::Insert { table: t.into(), rows: vec![vec![i(k), txt(n, ch)]] };
    let upd = |t: &str, k: i128, n: usize, ch: char| Stmt::Update { table: t.into(), set: vec![("s".into(), txt(n, ch))], pred: Some(("k".into(), i(k))) };
    let del = |t: &str, k: i128| Stmt::Delete { table: t.into(), pred: Some(("k".into(), i(k))) };
    let prefix = vec![Op::Auto(Stmt::CreateTable(d.clone())), Op::Auto(ins("d", 1, 1000, 'a')), Op::Auto(ins("d", 2, 9000, 'b')), Op::Auto(ins("d", 3, 20, 'c'))];
    let alpha = vec![
        Op::Auto(ins("d", 4, 1000, 'd')),
        Op::Auto(ins("d", 5, 9000, 'e')),
        Op::Auto(upd("d", 1, 1000, 'x')),
        Op::Auto(upd("d", 1, 9000, 'y')),
        Op::Auto(upd("d", 2, 20, 'z')),
        Op::Auto(upd("d", 3, 3000, 'w')),
        Op::Auto(del("d", 2)),
        Op::Auto(Stmt::Delete { table: "d".into(), pred: None }),
        Op::Auto(Stmt::CreateTable(x.clone())),
        Op::Auto(ins("x", 1, 9000, 'q')),
        Op::Auto(Stmt::DropTable("x".into())),
        Op::Begin(1),
        Op::In(1, ins("d", 6, 9000, 'r')),
        Op::In(1, del("d", 1)),
        Op::Rollback(1),
        Op::Commit(1),
        Op::Vacuum,
        Op::Reopen,
    ];
    vec![mk_search("C11", "SQL level: d(k, s TEXT) with rows of 20 B, 1000 B and 9000 B; inserts, growing and shrinking updates, deletes, a second unique-keyed table created / filled / dropped, session insert/delete with commit or rollback, VACUUM, reopen - whole-file page census at the end of every history", crate::sqldrv::Cfg::default(), prefix, alpha, if quick { 3 } else { 5 }, if quick { 60_000 } else { 3_000_000 }, |p| {
        p.census_end = true;
    })]
}

pub fn c11(tier: &str) -> i32 {
    let quick = tier == "quick";
    let mut searches = c11_component_searches(quick);
    searches.extend(c11_sql_searches(quick));
    run_searches(
        "C11",
        tier,
        "model_checking",
        searches,
        &[
            "component level: two B+trees sharing one real pager, driven through the verif facade; the whole-file audit is computed in the harness from raw page dumps after EVERY operation",
            "audit: starting from the two roots every page id in 1..total_pages must be reached exactly once - as a node of exactly one tree, as a link of exactly one overflow chain referenced by exactly one cell, or as a member of the free list, whose chain must be acyclic and agree with the recorded head and tail",
            "liveness half: the file must not grow during an operation while pages that were free before it are still free after it",
            "SQL level: one search over DDL/DML histories with a whole-file census (both catalogue trees, every table and index tree found through the catalogue, overflow chains of leaf cells, free list) at the end of every history that leaves no session open and no invisible relation (rolled-back CREATE, DROP not yet vacuumed) behind",
        ],
        "BFS over put (8 B .. 3 pages)/remove/run-insert/run-remove operations on a first tree and put/remove/grow/whole-tree dealloc on a second tree sharing the pager, from the empty file and from a 3-level first tree",
    )
}
