//! Component-level checks through the `verif` facade (C17 ...).

use crate::engines::wal::{Size, WOp, WalParams};
use crate::findings::Findings;
use crate::report::{run_searches, Search};

fn wal_search(label: &str, prefix: Vec<WOp>, alphabet: Vec<WOp>, depth: usize, budget: usize) -> Search {
    let findings = Findings::load();
    let p = WalParams { prefix, alphabet: alphabet.clone(), triggers: findings.ids_for("C17").into_iter().collect() };
    Search { label: label.into(), engine: "wal", params: serde_json::to_value(&p).unwrap(), alphabet_shown: alphabet.iter().map(|o| o.show()).collect(), max_depth: depth, budget, timeout_s: 120 }
}

pub fn c17(tier: &str) -> i32 {
    let quick = tier == "quick";
    let alphabet = vec![
        WOp::Append(Size::Header),
        WOp::Append(Size::Small),
        WOp::Append(Size::Medium),
        WOp::Append(Size::ExactFit),
        WOp::Append(Size::OneTooMany),
        WOp::Append(Size::BlockMax),
        WOp::Append(Size::TooLarge),
        WOp::Force,
        WOp::Reopen,
        WOp::CrashReopen,
        WOp::Truncate,
    ];
    let mut searches = vec![];
    searches.push(wal_search("empty log", vec![], alphabet.clone(), if quick { 6 } else { 7 }, if quick { 400_000 } else { 5_000_000 }));
    searches.push(wal_search("seed: block zero about 75% full (3 medium records), forced", vec![WOp::Append(Size::Medium), WOp::Append(Size::Medium), WOp::Append(Size::Medium), WOp::Force], alphabet.clone(), if quick { 4 } else { 6 }, if quick { 100_000 } else { 3_000_000 }));
    searches.push(wal_search("seed: block zero exactly full and one full data block, forced once", vec![WOp::Append(Size::ExactFit), WOp::Append(Size::BlockMax), WOp::Force], alphabet.clone(), if quick { 3 } else { 5 }, if quick { 50_000 } else { 2_000_000 }));
    searches.push(wal_search("seed: nothing forced yet, block zero full, one full block queued, one block being filled", vec![WOp::Append(Size::ExactFit), WOp::Append(Size::BlockMax), WOp::Append(Size::Medium)], alphabet.clone(), if quick { 4 } else { 6 }, if quick { 100_000 } else { 3_000_000 }));
    run_searches(
        "C17",
        tier,
        "model_checking",
        searches,
        &[
            "the log is driven through the verif facade exactly as Pager::push_to_log drives it (sequence number = last_lsn()+1)",
            "size classes are relative to the block being filled: header-only, 100 B, 10 000 B, exact fit, one alignment unit too many, per-block maximum, maximum + 8 (must be rejected)",
            "after every force and every clean or crash reopen the whole log is read back with read-ahead 1, 2, 4 and 16 blocks",
            "after a crash reopen records that were appended but not forced may be missing, but only as a suffix",
        ],
        "BFS over append(size class)/force/close+open/crash+open/truncate sequences, deduplicated on (record sizes, forced count, fill level of the current block, blocks left behind); oracle = list model",
    )
}
