//! Generic explicit-state explorer: breadth-first over operation sequences, shortest first,
//! state-deduplicated by a canonical key computed by the engine's worker function.
//!
//! A state *is* the operation list that reaches it (the database is neither cloneable nor
//! hashable): every transition re-executes its whole history on a fresh instance of the real
//! engine with the reference model running alongside.

use crate::par::{run_cases, CaseRes};
use serde::{Deserialize, Serialize};
use serde_json::{json, Value};
use std::collections::{BTreeMap, BTreeSet};
use std::time::Instant;

/// What a worker reports for one history.
#[derive(Debug, Clone, Default, Serialize, Deserialize)]
pub struct StepReport {
    /// "ok" | "disabled" | "violation" | "known" | "tainted" | "machinery"
    pub status: String,
    /// canonical key of the state reached (model state + implementation summary)
    pub key: String,
    pub detail: String,
    /// finding ids involved (status known / tainted)
    pub findings: Vec<String>,
    /// named code paths this execution reached
    pub counters: BTreeMap<String, u64>,
    /// digest of the observable outcome (to count distinct outcomes)
    pub outcome: String,
    /// how many of the confirmation re-runs reproduced the failure
    pub reproduced: u32,
    /// do not extend this history even if its state is new
    pub stop: bool,
}

#[derive(Debug, Clone, Serialize, Deserialize)]
pub struct Violation {
    pub hist: Vec<usize>,
    pub script: Vec<String>,
    pub detail: String,
    pub seed_state: String,
}

#[derive(Debug, Default)]
pub struct BfsResult {
    pub states: usize,
    pub transitions: usize,
    pub disabled: usize,
    pub depth_completed: usize,
    pub per_depth: Vec<(usize, usize, usize)>, // (depth, new states, transitions)
    pub violations: Vec<Violation>,
    pub unstable: Vec<Violation>,
    pub known: BTreeMap<String, (usize, Violation)>,
    pub tainted: usize,
    /// executions not judged, by the listed hazard that fired first
    pub tainted_by: std::collections::BTreeMap<String, usize>,
    pub judged_strictly: usize,
    pub counters: BTreeMap<String, u64>,
    pub outcomes: BTreeSet<String>,
    pub samples: Vec<Vec<String>>,
    pub capped: Option<String>,
    pub machinery: Vec<String>,
    pub hangs: usize,
    pub crashes: usize,
}

pub struct BfsSpec<'a> {
    pub engine: &'a str,
    /// passed verbatim to the worker (must contain the alphabet under "alphabet")
    pub params: Value,
    pub alphabet_len: usize,
    pub show_op: &'a dyn Fn(usize) -> String,
    pub max_depth: usize,
    /// stop before a depth whose frontier expansion would exceed this many executions in total
    pub budget: usize,
    pub timeout_s: u64,
    pub seed_label: String,
    pub deadline: Option<Instant>,
}

pub fn bfs(spec: &BfsSpec) -> BfsResult {
    let mut res = BfsResult::default();
    let mut seen: BTreeSet<String> = BTreeSet::new();
    let mut frontier: Vec<Vec<usize>> = vec![vec![]];
    // the initial state itself (empty history) is executed too: it validates the seed prefix
    {
        let r = run_cases(spec.engine, &spec.params, &[json!({"hist": []})], spec.timeout_s);
        match &r[0] {
            CaseRes::Done(v) => {
                let rep: StepReport = serde_json::from_value(v.clone()).unwrap_or_default();
                if !rep.outcome.is_empty() {
                    res.outcomes.insert(rep.outcome.clone());
                }
                if rep.status == "ok" || rep.status == "known" {
                    seen.insert(rep.key.clone());
                    res.states = 1;
                    res.transitions = 1;
                    for (k, v) in &rep.counters {
                        *res.counters.entry(k.clone()).or_insert(0) += v;
                    }
                    for f in &rep.findings {
                        let v = Violation { hist: vec![], script: vec!["(seed state only)".into()], detail: rep.detail.clone(), seed_state: spec.seed_label.clone() };
                        res.known.entry(f.clone()).or_insert_with(|| (0, v)).0 += 1;
                    }
                } else if rep.status == "violation" {
                    // the seed prefix itself (empty history) already violates the property
                    res.states = 1;
                    res.transitions = 1;
                    let v = Violation { hist: vec![], script: vec!["(seed prefix only)".into()], detail: rep.detail.clone(), seed_state: spec.seed_label.clone() };
                    if rep.reproduced >= 2 {
                        res.violations.push(v);
                    } else {
                        res.unstable.push(v);
                    }
                    res.samples.push(vec!["(seed prefix only)".into()]);
                    return res;
                } else {
                    res.machinery.push(format!("seed state '{}' does not execute cleanly: {} {}", spec.seed_label, rep.status, rep.detail));
                    return res;
                }
            }
            other => {
                res.machinery.push(format!("seed state '{}' failed: {:?}", spec.seed_label, other));
                return res;
            }
        }
    }
    for depth in 1..=spec.max_depth {
        let n_cases = frontier.len() * spec.alphabet_len;
        if n_cases == 0 {
            res.depth_completed = spec.max_depth;
            break;
        }
        if res.transitions + res.disabled + n_cases > spec.budget {
            res.capped = Some(format!(
                "execution budget {} would be exceeded at depth {} ({} candidate executions); depth {} completed",
                spec.budget, depth, n_cases, depth - 1
            ));
            break;
        }
        if let Some(d) = spec.deadline {
            if Instant::now() > d {
                res.capped = Some(format!("wall-clock cap reached before depth {depth}; depth {} completed", depth - 1));
                break;
            }
        }
        let mut cases = Vec::with_capacity(n_cases);
        let mut hists = Vec::with_capacity(n_cases);
        for h in &frontier {
            for op in 0..spec.alphabet_len {
                let mut hh = h.clone();
                hh.push(op);
                cases.push(json!({"hist": hh}));
                hists.push(hh);
            }
        }
        // executed in batches so that the wall-clock cap can stop the search inside a depth; a depth that was cut
        // short is not counted as completed, but what its executed histories showed is still reported
        let mut results = Vec::with_capacity(n_cases);
        let mut cut: Option<usize> = None;
        for chunk in cases.chunks(4096) {
            results.extend(run_cases(spec.engine, &spec.params, chunk, spec.timeout_s));
            if let Some(d) = spec.deadline {
                if Instant::now() > d && results.len() < n_cases {
                    cut = Some(results.len());
                    break;
                }
            }
        }
        let mut next: Vec<Vec<usize>> = vec![];
        let mut new_states = 0;
        let mut trans = 0;
        for (h, r) in hists.into_iter().zip(results.into_iter()) {
            let script: Vec<String> = h.iter().map(|i| (spec.show_op)(*i)).collect();
            let mk = |detail: String| Violation { hist: h.clone(), script: script.clone(), detail, seed_state: spec.seed_label.clone() };
            match r {
                CaseRes::Done(v) => {
                    let rep: StepReport = match serde_json::from_value(v) {
                        Ok(r) => r,
                        Err(e) => {
                            res.machinery.push(format!("bad worker report: {e}"));
                            continue;
                        }
                    };
                    if let Ok(w) = std::env::var("VERIF_BFS_WATCH") {
                        let watch: Vec<usize> = w.split(',').filter_map(|x| x.trim().parse().ok()).collect();
                        if watch.starts_with(&h) {
                            eprintln!("WATCH {:?} status={} stop={} new={} key={}", h, rep.status, rep.stop, !seen.contains(&rep.key), rep.key.chars().take(200).collect::<String>());
                        }
                    }
                    if rep.status == "disabled" {
                        res.disabled += 1;
                        continue;
                    }
                    trans += 1;
                    for (k, v) in &rep.counters {
                        *res.counters.entry(k.clone()).or_insert(0) += v;
                    }
                    if !rep.outcome.is_empty() && res.outcomes.len() < 200_000 {
                        res.outcomes.insert(rep.outcome.clone());
                    }
                    match rep.status.as_str() {
                        "ok" => {
                            res.judged_strictly += 1;
                            if seen.insert(rep.key.clone()) {
                                new_states += 1;
                                if res.samples.len() < 6 && (depth == spec.max_depth || depth >= 3) && new_states % 97 == 1 {
                                    res.samples.push(script.clone());
                                }
                                if !rep.stop {
                                    next.push(h);
                                }
                            }
                        }
                        "tainted" => {
                            res.tainted += 1;
                            *res.tainted_by.entry(rep.findings.first().cloned().unwrap_or_else(|| "?".into())).or_insert(0) += 1;
                            if !rep.stop && !rep.key.is_empty() && seen.insert(rep.key.clone()) {
                                new_states += 1;
                                next.push(h);
                            }
                        }
                        "known" => {
                            for f in &rep.findings {
                                let e = res.known.entry(f.clone()).or_insert_with(|| (0, mk(rep.detail.clone())));
                                e.0 += 1;
                            }
                            // engines that attach a finding to a sub-case (a crash point) keep the history alive
                            if !rep.stop && seen.insert(rep.key.clone()) {
                                new_states += 1;
                                next.push(h);
                            }
                        }
                        "violation" => {
                            // a failure that does not repeat identically is still a failure of the real engine
                            // on this history; it is reported as a violation and flagged so that the reader
                            // knows the re-runs differed (engine-side nondeterminism)
                            if rep.reproduced >= 2 {
                                res.violations.push(mk(rep.detail.clone()));
                            } else {
                                res.unstable.push(mk(format!("(reproduced {} of 2 re-runs) {}", rep.reproduced, rep.detail)));
                                res.violations.push(mk(format!("(UNSTABLE: the same failure was reproduced in {} of 2 re-runs from scratch) {}", rep.reproduced, rep.detail)));
                            }
                        }
                        "machinery" => res.machinery.push(format!("{} :: {}", script.join(" ; "), rep.detail)),
                        other => res.machinery.push(format!("unknown status {other}")),
                    }
                }
                CaseRes::Hung => {
                    trans += 1;
                    res.hangs += 1;
                    res.violations.push(mk("HANG: the history did not finish within the watchdog limit".into()));
                }
                CaseRes::Crashed(m) => {
                    if m.contains("harness-side panic") {
                        res.machinery.push(format!("{} :: {m}", script.join(" ; ")));
                    } else {
                        trans += 1;
                        res.crashes += 1;
                        res.violations.push(mk(format!("PROCESS DEATH while executing the history: {m}")));
                    }
                }
            }
        }
        res.transitions += trans;
        res.states += new_states;
        res.per_depth.push((depth, new_states, trans));
        if let Some(done) = cut {
            res.capped = Some(format!("wall-clock cap reached inside depth {depth} after {done} of {n_cases} candidate executions; depth {} completed", depth - 1));
            break;
        }
        res.depth_completed = depth;
        frontier = next;
        if res.violations.len() > 50 {
            res.capped = Some(format!("stopped after depth {depth}: more than 50 violations"));
            break;
        }
    }
    if res.samples.is_empty() {
        // make sure at least one explored history is written out
        if let Some(h) = frontier.first() {
            res.samples.push(h.iter().map(|i| (spec.show_op)(*i)).collect());
        }
    }
    res
}

/// What two runs of the same case must agree on to count as "the same failure": the first line of the
/// detail with per-run noise (scratch paths, addresses, ids, timings) removed.
pub fn failure_signature(s: &str) -> String {
    let line = s.lines().next().unwrap_or("");
    let mut out = String::new();
    let mut in_path = false;
    for c in line.chars() {
        if in_path {
            if c.is_whitespace() || c == '"' || c == '\'' || c == ')' {
                in_path = false;
            } else {
                continue;
            }
        }
        if c == '/' {
            in_path = true;
            out.push_str("<path>");
            continue;
        }
        if c.is_ascii_digit() {
            continue;
        }
        out.push(c);
    }
    out
}
