//! C06: whichever plan is chosen, the answer is the answer of the query as written.

use crate::engines::plan::PlanParams;
use crate::engines::seq::SeqParams;
use crate::findings::Findings;
use crate::model::*;
use crate::report::{run_searches, Search};
use crate::sqldrv::{Cfg, Val};

fn i(v: i128) -> Val {
    Val::Int(v)
}
fn ins(table: &str, rows: &[(i128, i128)]) -> Stmt {
    Stmt::Insert { table: table.into(), rows: rows.iter().map(|(a, b)| vec![i(*a), i(*b)]).collect() }
}
fn del(table: &str, k: i128) -> Stmt {
    Stmt::Delete { table: table.into(), pred: Some(("k".into(), i(k))) }
}
fn upd(table: &str, col: &str, k: i128, v: i128) -> Stmt {
    Stmt::Update { table: table.into(), set: vec![(col.into(), i(v))], pred: Some(("k".into(), i(k))) }
}

fn mk(label: &str, prefix: Vec<Op>, alphabet: Vec<Op>, depth: usize, budget: usize) -> Search {
    let findings = Findings::load();
    let p = PlanParams {
        seq: SeqParams {
            property: "C06".into(),
            cfg: Cfg::default(),
            prefix,
            alphabet: alphabet.clone(),
            hazards: findings.ids_for("C06").into_iter().collect(),
            audit_end: false,
            reopen_end: false,
            vacuum_end: false,
            reopen_cfg: None,
        oom_tolerant: false,
        vacuum_with_sessions: false,
        census_end: false,
        },
    };
    Search { label: label.into(), engine: "plan", params: serde_json::to_value(&p).unwrap(), alphabet_shown: alphabet.iter().map(|o| o.show()).collect(), max_depth: depth, budget, timeout_s: 90 }
}

pub fn c06(tier: &str) -> i32 {
    let quick = tier == "quick";
    let p_plain = TableDef::simple("p", &[("k", ColTy::Int), ("v", ColTy::Int)]);
    let p_unique = p_plain.clone().with_unique(&["k"]);
    let q = TableDef::simple("q", &[("k", ColTy::Int), ("w", ColTy::Int)]);
    let common = |alpha: &mut Vec<Op>| {
        alpha.push(Op::Auto(ins("p", &[(3, 30)])));
        alpha.push(Op::Auto(ins("p", &[(9, 5)])));
        alpha.push(Op::Auto(del("p", 1)));
        alpha.push(Op::Auto(del("p", 2)));
        alpha.push(Op::Auto(ins("p", &[(1, 11)])));
        alpha.push(Op::Auto(upd("p", "v", 2, 21)));
        alpha.push(Op::Begin(1));
        alpha.push(Op::In(1, ins("p", &[(3, 31)])));
        alpha.push(Op::In(1, del("p", 2)));
        alpha.push(Op::Rollback(1));
        alpha.push(Op::Commit(1));
        alpha.push(Op::Vacuum);
        alpha.push(Op::Analyze);
        alpha.push(Op::Auto(ins("q", &[(3, 300)])));
        alpha.push(Op::Auto(del("q", 2)));
    };
    let seed_rows = vec![Op::Auto(ins("p", &[(1, 10), (2, 20)])), Op::Auto(ins("q", &[(1, 100), (2, 200), (2, 201)]))];

    let mut searches = vec![];
    {
        let mut prefix = vec![Op::Auto(Stmt::CreateTable(p_unique.clone())), Op::Auto(Stmt::CreateTable(q.clone()))];
        prefix.extend(seed_rows.clone());
        let mut alpha = vec![];
        common(&mut alpha);
        alpha.push(Op::Reopen);
        searches.push(mk("p(k UNIQUE, v) declared with the table; q(k, w) without index", prefix, alpha, if quick { 3 } else { 5 }, if quick { 4_000 } else { 400_000 }));
    }
    {
        let mut prefix = vec![Op::Auto(Stmt::CreateTable(p_plain.clone())), Op::Auto(Stmt::CreateTable(q.clone()))];
        prefix.extend(seed_rows.clone());
        let mut alpha = vec![Op::Auto(Stmt::CreateUniqueIndex { name: "p_k".into(), table: "p".into(), cols: vec!["k".into()] })];
        common(&mut alpha);
        searches.push(mk("index on p(k) created after rows exist (CREATE UNIQUE INDEX is an operation of the alphabet)", prefix, alpha, if quick { 3 } else { 5 }, if quick { 4_000 } else { 400_000 }));
    }
    {
        let a = TableDef::simple("a", &[("k", ColTy::Int), ("v", ColTy::Int)]);
        let b = TableDef::simple("b", &[("k", ColTy::Int), ("w", ColTy::Int)]);
        let c = TableDef::simple("c", &[("k", ColTy::Int), ("v", ColTy::Int), ("z", ColTy::Int)]);
        let ins3 = |rows: &[(i128, i128, i128)]| Stmt::Insert { table: "c".into(), rows: rows.iter().map(|(x, y, z)| vec![i(*x), i(*y), i(*z)]).collect() };
        let prefix = vec![
            Op::Auto(Stmt::CreateTable(a)),
            Op::Auto(Stmt::CreateTable(b)),
            Op::Auto(Stmt::CreateTable(c)),
            Op::Auto(ins("a", &[(1, 30), (1, 20), (2, 5)])),
            Op::Auto(Stmt::Insert { table: "b".into(), rows: vec![vec![Val::Null, i(7)], vec![i(1), i(100)], vec![i(2), i(200)]] }),
            Op::Auto(ins3(&[(1, 10, 1), (1, 20, 2), (1, 30, 3), (2, 5, 4)])),
        ];
        let alpha = vec![
            Op::Auto(ins("a", &[(1, 10)])),
            Op::Auto(ins("a", &[(2, 4)])),
            Op::Auto(ins("a", &[(3, 1)])),
            Op::Auto(Stmt::Insert { table: "a".into(), rows: vec![vec![Val::Null, i(20)]] }),
            Op::Auto(del("a", 1)),
            Op::Auto(ins("b", &[(1, 101)])),
            Op::Auto(ins("b", &[(3, 300)])),
            Op::Auto(del("b", 2)),
            Op::Auto(ins3(&[(2, 4, 5)])),
            Op::Auto(ins3(&[(3, 1, 6)])),
            Op::Auto(Stmt::Delete { table: "c".into(), pred: Some(("v".into(), i(20))) }),
            Op::Analyze,
            Op::Vacuum,
        ];
        searches.push(mk("three-table joins: a(k, v) with duplicate k and descending v, b(k, w) with a NULL key, c(k, v, z)", prefix, alpha, if quick { 3 } else { 5 }, if quick { 4_000 } else { 400_000 }));
    }
    {
        let m = TableDef::simple("m", &[("a", ColTy::Int), ("b", ColTy::Int), ("v", ColTy::Int)]).with_unique(&["a", "b"]);
        let ins3 = |rows: &[(i128, i128, i128)]| Stmt::Insert { table: "m".into(), rows: rows.iter().map(|(x, y, z)| vec![i(*x), i(*y), i(*z)]).collect() };
        let prefix = vec![Op::Auto(Stmt::CreateTable(m)), Op::Auto(ins3(&[(0, 9, 1), (2, 1, 2)]))];
        let alpha = vec![
            Op::Auto(ins3(&[(1, 0, 3)])),
            Op::Auto(ins3(&[(2, 5, 4)])),
            Op::Auto(ins3(&[(0, 3, 5)])),
            Op::Auto(ins3(&[(3, 0, 6), (1, 9, 7)])),
            Op::Auto(Stmt::Delete { table: "m".into(), pred: Some(("b".into(), i(9))) }),
            Op::Auto(Stmt::Delete { table: "m".into(), pred: Some(("a".into(), i(2))) }),
            Op::Begin(1),
            Op::In(1, ins3(&[(1, 1, 8)])),
            Op::Rollback(1),
            Op::Commit(1),
            Op::Vacuum,
            Op::Analyze,
        ];
        searches.push(mk("composite unique index m(a, b): bounds on the leading column, on the non-leading column, and on both", prefix, alpha, if quick { 3 } else { 5 }, if quick { 3_000 } else { 400_000 }));
    }
    {
        // composite indexes created on the POPULATED table, with the columns declared in table order and against it
        let m = TableDef::simple("m", &[("a", ColTy::Int), ("b", ColTy::Int), ("v", ColTy::Int)]);
        let ins3 = |rows: &[(i128, i128, i128)]| Stmt::Insert { table: "m".into(), rows: rows.iter().map(|(x, y, z)| vec![i(*x), i(*y), i(*z)]).collect() };
        let prefix = vec![Op::Auto(Stmt::CreateTable(m)), Op::Auto(ins3(&[(0, 9, 1), (2, 1, 2), (1, 3, 3), (3, 0, 4)]))];
        let alpha = vec![
            Op::Auto(Stmt::CreateUniqueIndex { name: "m_ba".into(), table: "m".into(), cols: vec!["b".into(), "a".into()] }),
            Op::Auto(Stmt::CreateUniqueIndex { name: "m_ab".into(), table: "m".into(), cols: vec!["a".into(), "b".into()] }),
            Op::Auto(Stmt::CreateUniqueIndex { name: "m_vb".into(), table: "m".into(), cols: vec!["v".into(), "b".into()] }),
            Op::Auto(ins3(&[(1, 0, 5)])),
            Op::Auto(ins3(&[(0, 1, 6), (9, 9, 7)])),
            Op::Auto(ins3(&[(2, 1, 8)])),
            Op::Auto(Stmt::Delete { table: "m".into(), pred: Some(("b".into(), i(9))) }),
            Op::Analyze,
            Op::Reopen,
        ];
        searches.push(mk("composite unique indexes created on the populated m(a, b, v) with the columns in table order (a, b) and against it (b, a), (v, b); later inserts incl. a duplicate of an existing (a, b); the same bound classes", prefix, alpha, if quick { 3 } else { 5 }, if quick { 3_000 } else { 400_000 }));
    }
    {
        // asymmetric sizes: p has 2 rows, g has 200 rows of 100 bytes (several pages); ANALYZE is in the alphabet
        let g = TableDef::simple("g", &[("k", ColTy::Int), ("w", ColTy::Text)]);
        let mut prefix = vec![Op::Auto(Stmt::CreateTable(p_plain.clone())), Op::Auto(Stmt::CreateTable(g)), Op::Auto(ins("p", &[(1, 10), (2, 20)]))];
        for base in (0..200).step_by(40) {
            prefix.push(Op::Auto(Stmt::Insert { table: "g".into(), rows: (base..base + 40).map(|k| vec![i(k), Val::Text("x".repeat(100))]).collect() }));
        }
        let alpha = vec![
            Op::Analyze,
            Op::Auto(ins("p", &[(3, 30)])),
            Op::Auto(del("p", 1)),
            Op::Auto(del("g", 1)),
            Op::Vacuum,
            Op::Auto(Stmt::CreateUniqueIndex { name: "g_k".into(), table: "g".into(), cols: vec!["k".into()] }),
        ];
        searches.push(mk("small p(k, v) against a 200-row g(k, w TEXT): non-equi and equi joins before and after ANALYZE", prefix, alpha, if quick { 2 } else { 4 }, if quick { 2_000 } else { 100_000 }));
    }
    run_searches(
        "C06",
        tier,
        "model_checking",
        searches,
        &[
            "tables of at most 5 rows with INT columns; the indexed column is a single-column unique index",
            "the query family is fixed (see rule); joins are inner equi-joins of two and three tables (single and composite keys, NULL keys, duplicate keys in non-ascending insertion order); outer joins belong to C05",
            "histories on which a listed known finding's hazard fires are judged only up to the hazard step; UPDATE on an indexed table is such a hazard (C07), so index maintenance under UPDATE is not reached",
        ],
        "BFS over operation sequences (insert/delete/update/rolled-back and committed session writes/VACUUM/ANALYZE/reopen/CREATE UNIQUE INDEX), deduplicated on the reference model state; in EVERY reached state up to 38 query classes are each run in 3-7 semantically identical spellings (bare indexed predicate, `k + 0` wrapped, operands swapped, redundant conjunct, IN vs OR vs BETWEEN, JOIN ON vs comma join in both table orders) and every spelling must return exactly the rows the reference evaluator computes from the model's committed contents; EXPLAIN of every spelling is recorded to count classes whose spellings really got different plans",
    )
}

// ------------------------------------------------------------------------------------------- C12

fn cfg_grid(quick: bool) -> Vec<Cfg> {
    let c = |page_size, cache, pool, min_keys, siblings| Cfg { page_size, cache, pool, min_keys, siblings };
    if quick {
        // every value of every dimension appears at least once, extremes are combined with each other
        vec![
            c(4096, 10000, 2, 3, 2), // the default every SQL-level test of the repository runs
            c(4096, 16, 1, 3, 1),
            c(4096, 32, 2, 4, 2),
            c(4096, 64, 8, 8, 3),
            c(8192, 16, 2, 8, 2),
            c(8192, 64, 1, 3, 3),
            c(16384, 32, 8, 4, 1),
            c(65536, 16, 1, 4, 3),
            c(65536, 32, 2, 3, 1),
            c(65536, 10000, 8, 8, 2),
        ]
    } else {
        let mut v = vec![c(4096, 10000, 2, 3, 2)];
        for page_size in [4096usize, 8192, 65536] {
            for cache in [16usize, 32, 64, 10000] {
                for pool in [1usize, 8] {
                    for min_keys in [3usize, 4, 8] {
                        for siblings in [1usize, 2, 3] {
                            let x = c(page_size, cache, pool, min_keys, siblings);
                            if !v.contains(&x) {
                                v.push(x);
                            }
                        }
                    }
                }
            }
        }
        v
    }
}

pub fn c12(tier: &str) -> i32 {
    use crate::engines::cfg::CfgParams;
    let quick = tier == "quick";
    let findings = Findings::load();
    let txt = |n: usize, ch: char| Val::Text(std::iter::repeat(ch).take(n).collect());
    let d = TableDef::simple("d", &[("k", ColTy::Int), ("s", ColTy::Text)]);
    let x = TableDef::simple("x", &[("k", ColTy::Int), ("v", ColTy::Int)]).with_unique(&["k"]);
    let ins_d = |range: std::ops::RangeInclusive<i128>, n: usize| Stmt::Insert { table: "d".into(), rows: range.map(|k| vec![i(k), txt(n, (b'a' + (k % 26) as u8) as char)]).collect() };
    let ins_x = |range: std::ops::RangeInclusive<i128>| Stmt::Insert { table: "x".into(), rows: range.map(|k| vec![i(k), i(k * 10)]).collect() };
    let prefix = vec![
        Op::Auto(Stmt::CreateTable(d)),
        Op::Auto(Stmt::CreateTable(x)),
        Op::Auto(ins_d(1..=40, 150)),
        Op::Auto(ins_d(41..=80, 150)),
        Op::Auto(ins_d(81..=120, 150)),
        Op::Auto(ins_x(1..=60)),
        Op::Auto(ins_x(61..=120)),
    ];
    let alpha = vec![
        Op::Auto(ins_d(200..=239, 150)),
        Op::Auto(ins_d(300..=300, 6000)),
        Op::Auto(ins_d(301..=301, 20000)),
        Op::Auto(del("d", 1)),
        Op::Auto(del("d", 300)),
        Op::Auto(Stmt::Delete { table: "d".into(), pred: None }),
        Op::Auto(Stmt::Update { table: "d".into(), set: vec![("s".into(), txt(1, 'x'))], pred: Some(("k".into(), i(2))) }),
        Op::Auto(Stmt::Update { table: "d".into(), set: vec![("s".into(), txt(5000, 'y'))], pred: Some(("k".into(), i(3))) }),
        Op::Auto(ins_x(200..=249)),
        Op::Auto(del("x", 10)),
        Op::Auto(Stmt::Select { table: "x".into(), pred: Some(("k".into(), i(77))) }),
        Op::Begin(1),
        Op::In(1, ins_d(400..=419, 150)),
        Op::In(1, del("d", 5)),
        Op::Rollback(1),
        Op::Commit(1),
        Op::Flush,
        Op::Vacuum,
        Op::Reopen,
    ];
    let cfgs = cfg_grid(quick);
    let p = CfgParams {
        seq: SeqParams {
            property: "C12".into(),
            cfg: Cfg::default(),
            prefix,
            alphabet: alpha.clone(),
            hazards: findings.ids_for("C12").into_iter().collect(),
            audit_end: true,
            reopen_end: false,
            vacuum_end: false,
            reopen_cfg: None,
        oom_tolerant: false,
        vacuum_with_sessions: false,
        census_end: false,
        },
        cfgs: cfgs.clone(),
        oom_allowed_below: 24,
    };
    let label = format!(
        "bulk workload on d(k, s TEXT) [120 rows of 150 B in the seed state] and x(k UNIQUE, v) [120 rows] under {} configurations: {}",
        cfgs.len(),
        cfgs.iter().map(|c| format!("{}/{}/{}/{}/{}", c.page_size, c.cache, c.pool, c.min_keys, c.siblings)).collect::<Vec<_>>().join(" ")
    );
    let mut searches = vec![Search { label, engine: "cfg", params: serde_json::to_value(&p).unwrap(), alphabet_shown: alpha.iter().map(|o| o.show()).collect(), max_depth: if quick { 3 } else { 4 }, budget: if quick { 20_000 } else { 200_000 }, timeout_s: 300 }];
    // second search: the state after a populated table was dropped (non-empty free list): tables created now live on
    // recycled pages, whose first image in the file is the freed page
    {
        let d = TableDef::simple("d", &[("k", ColTy::Int), ("s", ColTy::Text)]);
        let j = TableDef::simple("j", &[("k", ColTy::Int), ("s", ColTy::Text)]);
        let n = TableDef::simple("n", &[("k", ColTy::Int), ("s", ColTy::Text)]);
        let n2 = TableDef::simple("n2", &[("k", ColTy::Int), ("v", ColTy::Int)]).with_unique(&["k"]);
        let ins = |t: &str, range: std::ops::RangeInclusive<i128>, len: usize| Stmt::Insert { table: t.into(), rows: range.map(|k| vec![i(k), txt(len, (b'a' + (k % 26) as u8) as char)]).collect() };
        let prefix = vec![
            Op::Auto(Stmt::CreateTable(d)),
            Op::Auto(Stmt::CreateTable(j)),
            Op::Auto(ins("d", 1..=40, 150)),
            Op::Auto(ins("d", 41..=80, 150)),
            Op::Auto(ins("d", 81..=120, 150)),
            Op::Auto(ins("j", 1..=30, 900)),
            Op::Auto(ins("j", 31..=60, 900)),
            Op::Auto(Stmt::DropTable("j".into())),
        ];
        let alpha2 = vec![
            Op::Auto(Stmt::CreateTable(n)),
            Op::Auto(Stmt::CreateTable(n2)),
            Op::Auto(ins("n", 1..=2, 20)),
            Op::Auto(Stmt::Insert { table: "n2".into(), rows: vec![vec![i(1), i(10)], vec![i(2), i(20)]] }),
            Op::Auto(Stmt::Select { table: "n".into(), pred: None }),
            Op::Auto(Stmt::Select { table: "n2".into(), pred: Some(("k".into(), i(2))) }),
            Op::Auto(ins("d", 200..=239, 150)),
            Op::Auto(Stmt::Select { table: "d".into(), pred: None }),
            Op::Flush,
            Op::Reopen,
        ];
        let p2 = CfgParams { seq: SeqParams { prefix, alphabet: alpha2.clone(), ..p.seq.clone() }, cfgs: cfgs.clone(), oom_allowed_below: 24 };
        searches.push(Search {
            label: format!("after DROP of a populated table (60 rows of 900 B; free list non-empty): CREATE of a plain and of a UNIQUE-keyed table on recycled pages, bulk traffic on d in between, first insert/select on the new tables, flush, reopen, under the same {} configurations", cfgs.len()),
            engine: "cfg",
            params: serde_json::to_value(&p2).unwrap(),
            alphabet_shown: alpha2.iter().map(|o| o.show()).collect(),
            max_depth: if quick { 3 } else { 4 },
            budget: if quick { 20_000 } else { 200_000 },
            timeout_s: 300,
        });
    }
    // third search: the same seed workload, but every reopen passes a configuration that differs from the creation-time
    // one in every dimension (the settings of an existing database are the persisted ones; what open() is given must
    // not change any result)
    {
        let other = Cfg { page_size: 16384, cache: 48, pool: 2, min_keys: 4, siblings: 1 };
        let other2 = Cfg { page_size: 4096, cache: 48, pool: 2, min_keys: 4, siblings: 1 };
        for (oc, name) in [(other, "16384/48/2/4/1"), (other2, "4096/48/2/4/1")] {
            let p3 = CfgParams { seq: SeqParams { reopen_cfg: Some(oc), ..p.seq.clone() }, cfgs: cfgs.clone(), oom_allowed_below: 24 };
            let alpha3: Vec<Op> = alpha.iter().filter(|o| matches!(o, Op::Reopen | Op::Flush | Op::Auto(_))).cloned().collect();
            let p3 = CfgParams { seq: SeqParams { alphabet: alpha3.clone(), ..p3.seq }, ..p3 };
            searches.push(Search {
                label: format!("the bulk workload with every reopen passing the configuration {name} instead of the creation-time one, under the same {} creation-time configurations", cfgs.len()),
                engine: "cfg",
                params: serde_json::to_value(&p3).unwrap(),
                alphabet_shown: alpha3.iter().map(|o| o.show()).collect(),
                max_depth: if quick { 2 } else { 3 },
                budget: if quick { 20_000 } else { 200_000 },
                timeout_s: 300,
            });
        }
    }
    run_searches(
        "C12",
        tier,
        "model_checking",
        searches,
        &[
            "configuration grid as listed in the search label (page size / cache pages / pool / min keys / siblings); quick tier: 10 configurations in which every value of every dimension occurs and the extremes are combined, thorough tier: the full product 3 x 4 x 2 x 3 x 3",
            "the workload's seed state (about 40 data pages at 4 KiB) exceeds the 16-, 32- and (with the bulk inserts) 64-page caches, so eviction, write-back and re-read happen in most configurations; at 64 KiB pages the same rows fit one page each",
            "an explicit out-of-memory error is accepted only from caches below 24 pages (the documented range starts at 'a few dozen')",
            "statement-level, single client; histories on which a listed known finding's hazard fires are judged only up to the hazard step",
        ],
        "BFS over operation sequences (bulk inserts of 40-50 rows, 6 kB and 20 kB rows, point and full deletes, shrinking and growing updates, session insert/delete with commit or rollback, flush, VACUUM, reopen), deduplicated on the reference model state; EVERY history is executed from scratch under EVERY configuration of the grid; under each configuration every result and the final contents must equal the reference model's and the digests of all returned results must be equal across configurations",
    )
}
