//! C06: whichever plan is chosen, the answer is the answer of the query as written.

use crate::engines::plan::PlanParams;
use crate::engines::seq::SeqParams;
use crate::findings::Findings;
use crate::model::*;
use crate::report::{run_searches, Search};
use crate::sqldrv::{Cfg, Val};

fn i(v: i128) -> Val {
    Val::Int(v)
}
fn ins(table: &str, rows: &[(i128, i128)]) -> Stmt {
    Stmt::Insert { table: table.into(), rows: rows.iter().map(|(a, b)| vec![i(*a), i(*b)]).collect() }
}
fn del(table: &str, k: i128) -> Stmt {
    Stmt::Delete { table: table.into(), pred: Some(("k".into(), i(k))) }
}
fn upd(table: &str, col: &str, k: i128, v: i128) -> Stmt {
    Stmt::Update { table: table.into(), set: vec![(col.into(), i(v))], pred: Some(("k".into(), i(k))) }
}

fn mk(label: &str, prefix: Vec<Op>, alphabet: Vec<Op>, depth: usize, budget: usize) -> Search {
    let findings = Findings::load();
    let p = PlanParams {
        seq: SeqParams {
            property: "C06".into(),
            cfg: Cfg::default(),
            prefix,
            alphabet: alphabet.clone(),
            hazards: findings.ids_for("C06").into_iter().collect(),
            audit_end: false,
            reopen_end: false,
            vacuum_end: false,
            reopen_cfg: None,
        },
    };
    Search { label: label.into(), engine: "plan", params: serde_json::to_value(&p).unwrap(), alphabet_shown: alphabet.iter().map(|o| o.show()).collect(), max_depth: depth, budget, timeout_s: 90 }
}

pub fn c06(tier: &str) -> i32 {
    let quick = tier == "quick";
    let p_plain = TableDef::simple("p", &[("k", ColTy::Int), ("v", ColTy::Int)]);
    let p_unique = p_plain.clone().with_unique(&["k"]);
    let q = TableDef::simple("q", &[("k", ColTy::Int), ("w", ColTy::Int)]);
    let common = |alpha: &mut Vec<Op>| {
        alpha.push(Op::Auto(ins("p", &[(3, 30)])));
        alpha.push(Op::Auto(ins("p", &[(9, 5)])));
        alpha.push(Op::Auto(del("p", 1)));
        alpha.push(Op::Auto(del("p", 2)));
        alpha.push(Op::Auto(ins("p", &[(1, 11)])));
        alpha.push(Op::Auto(upd("p", "v", 2, 21)));
        alpha.push(Op::Begin(1));
        alpha.push(Op::In(1, ins("p", &[(3, 31)])));
        alpha.push(Op::In(1, del("p", 2)));
        alpha.push(Op::Rollback(1));
        alpha.push(Op::Commit(1));
        alpha.push(Op::Vacuum);
        alpha.push(Op::Analyze);
        alpha.push(Op::Auto(ins("q", &[(3, 300)])));
        alpha.push(Op::Auto(del("q", 2)));
    };
    let seed_rows = vec![Op::Auto(ins("p", &[(1, 10), (2, 20)])), Op::Auto(ins("q", &[(1, 100), (2, 200), (2, 201)]))];

    let mut searches = vec![];
    {
        let mut prefix = vec![Op::Auto(Stmt::CreateTable(p_unique.clone())), Op::Auto(Stmt::CreateTable(q.clone()))];
        prefix.extend(seed_rows.clone());
        let mut alpha = vec![];
        common(&mut alpha);
        alpha.push(Op::Reopen);
        searches.push(mk("p(k UNIQUE, v) declared with the table; q(k, w) without index", prefix, alpha, if quick { 3 } else { 5 }, if quick { 4_000 } else { 400_000 }));
    }
    {
        let mut prefix = vec![Op::Auto(Stmt::CreateTable(p_plain.clone())), Op::Auto(Stmt::CreateTable(q.clone()))];
        prefix.extend(seed_rows.clone());
        let mut alpha = vec![Op::Auto(Stmt::CreateUniqueIndex { name: "p_k".into(), table: "p".into(), cols: vec!["k".into()] })];
        common(&mut alpha);
        searches.push(mk("index on p(k) created after rows exist (CREATE UNIQUE INDEX is an operation of the alphabet)", prefix, alpha, if quick { 3 } else { 5 }, if quick { 4_000 } else { 400_000 }));
    }
    {
        let a = TableDef::simple("a", &[("k", ColTy::Int), ("v", ColTy::Int)]);
        let b = TableDef::simple("b", &[("k", ColTy::Int), ("w", ColTy::Int)]);
        let c = TableDef::simple("c", &[("k", ColTy::Int), ("v", ColTy::Int), ("z", ColTy::Int)]);
        let ins3 = |rows: &[(i128, i128, i128)]| Stmt::Insert { table: "c".into(), rows: rows.iter().map(|(x, y, z)| vec![i(*x), i(*y), i(*z)]).collect() };
        let prefix = vec![
            Op::Auto(Stmt::CreateTable(a)),
            Op::Auto(Stmt::CreateTable(b)),
            Op::Auto(Stmt::CreateTable(c)),
            Op::Auto(ins("a", &[(1, 30), (1, 20), (2, 5)])),
            Op::Auto(Stmt::Insert { table: "b".into(), rows: vec![vec![Val::Null, i(7)], vec![i(1), i(100)], vec![i(2), i(200)]] }),
            Op::Auto(ins3(&[(1, 10, 1), (1, 20, 2), (1, 30, 3), (2, 5, 4)])),
        ];
        let alpha = vec![
            Op::Auto(ins("a", &[(1, 10)])),
            Op::Auto(ins("a", &[(2, 4)])),
            Op::Auto(ins("a", &[(3, 1)])),
            Op::Auto(Stmt::Insert { table: "a".into(), rows: vec![vec![Val::Null, i(20)]] }),
            Op::Auto(del("a", 1)),
            Op::Auto(ins("b", &[(1, 101)])),
            Op::Auto(ins("b", &[(3, 300)])),
            Op::Auto(del("b", 2)),
            Op::Auto(ins3(&[(2, 4, 5)])),
            Op::Auto(ins3(&[(3, 1, 6)])),
            Op::Auto(Stmt::Delete { table: "c".into(), pred: Some(("v".into(), i(20))) }),
            Op::Analyze,
            Op::Vacuum,
        ];
        searches.push(mk("three-table joins: a(k, v) with duplicate k and descending v, b(k, w) with a NULL key, c(k, v, z)", prefix, alpha, if quick { 3 } else { 5 }, if quick { 4_000 } else { 400_000 }));
    }
    run_searches(
        "C06",
        tier,
        "model_checking",
        searches,
        &[
            "tables of at most 5 rows with INT columns; the indexed column is a single-column unique index",
            "the query family is fixed (see rule); joins are inner equi-joins of two and three tables (single and composite keys, NULL keys, duplicate keys in non-ascending insertion order); outer joins belong to C05",
            "histories on which a listed known finding's hazard fires are judged only up to the hazard step; UPDATE on an indexed table is such a hazard (C07), so index maintenance under UPDATE is not reached",
        ],
        "BFS over operation sequences (insert/delete/update/rolled-back and committed session writes/VACUUM/ANALYZE/reopen/CREATE UNIQUE INDEX), deduplicated on the reference model state; in EVERY reached state up to 38 query classes are each run in 3-7 semantically identical spellings (bare indexed predicate, `k + 0` wrapped, operands swapped, redundant conjunct, IN vs OR vs BETWEEN, JOIN ON vs comma join in both table orders) and every spelling must return exactly the rows the reference evaluator computes from the model's committed contents; EXPLAIN of every spelling is recorded to count classes whose spellings really got different plans",
    )
}
