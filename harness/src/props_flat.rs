//! Property checks that are flat exhaustive enumerations (C20 ...).

use crate::engines::wire;
use crate::report::{run_flat, FlatGroup};

pub fn c20(tier: &str) -> i32 {
    let thorough = tier == "thorough";
    let g = |name: &str, chunk: u64, what: &str| FlatGroup { name: name.into(), size: wire::group_size(name, thorough), chunk, what: what.into() };
    let groups = vec![
        g("roundtrip-request", 8, "every Request variant x field values { \"\", a, e-acute, 300 B, text with NUL, 70 000 B } / f64 {0,-0.0,1.5,NaN,inf,-inf,min subnormal} x usize {0,1,2^32-1,2^32,u64::MAX}: to_bytes/from_bytes and send_request/recv_request over an in-memory pipe"),
        g("roundtrip-response", 64, "every Response variant x the same field values; result sets r x c for r,c in 0..=3 with every assignment of {\"\", e-acute} to headers and cells (thorough: also the 5-string alphabet where headers+cells <= 4)"),
        g("frame-limits", 1, "message of exactly MAX_MESSAGE_SIZE, one byte more, oversized and short frame headers, back-to-back frames, a refused over-large send between two good messages on one stream (both directions)"),
        g("bytes-le2", 4096, "ALL byte strings of length <= 2 to Request::from_bytes, Response::from_bytes and read_message"),
        g("bytes-3", 1 << 14, "byte strings of length 3 (quick: those starting with the protocol version byte; thorough: all 2^24)"),
        g("lengths-request", 8, "each u32 length field of each canonical request encoding set to 0, len-1, len+1, 2^24+1, 2^31, 2^32-1"),
        g("lengths-response", 16, "each u32 length/count field (column count, row count, every string length) of each canonical response encoding set to 0, len-1, len+1, 2^24+1, 2^31, 2^32-1"),
        g("mutate-request", 4, "every strict prefix and every single-byte substitution (255 values) at every position of every canonical request encoding of <= 64 bytes, unframed and framed"),
        g("mutate-response", 8, "the same for canonical response encodings (quick: <= 40 bytes, thorough: <= 64 bytes)"),
        g("server-rows", 64, "the real axmos-server binary on a free port, a TCP client and an in-process database fed the same statements: every select list of length 1..3 over the columns of t (with repetition: neighbouring and separated columns of one name) x {all rows, one row, no row}; every 2- and 3-column list over both tables of a join; colliding aliases; star over joins; aggregates; DML, DDL and failing statements - the decoded response must be rectangular and equal the statement's output columns and rows"),
    ];
    run_flat(
        "C20",
        tier,
        "exploration",
        "wire",
        wire::params(thorough),
        groups,
        120,
        &[
            "decided at the codec/framing API (Request/Response::to_bytes/from_bytes, read_message/write_message, send_*/recv_*); of the server binary only the rendering of results (group server-rows: one connection, autocommit statements) is exercised, not its connection handling",
            "workers run with RLIMIT_AS = 6 GiB: an allocation driven by an unvalidated length field kills the worker and is attributed to its input",
            "invalid UTF-8 inside a string field is replaced by the decoder (from_utf8_lossy); that is not counted as accepted garbage because a sender can only put valid strings on the wire",
            "result sets are rectangular (every row has as many cells as there are columns)",
        ],
        "exhaustive enumeration of the bounded message shapes and byte strings listed under groups; non-trivial = a round trip, or a garbage input that at least one decoder accepted, or a mutated/length-corrupted canonical encoding",
        &|f: &str| {
            if f.contains("PROCESS DEATH") && f.contains("length/count field") {
                Some("KF-wire-unvalidated-count".to_string())
            } else {
                None
            }
        },
    )
}

pub fn c18(tier: &str) -> i32 {
    use crate::engines::tuple;
    use crate::findings::Findings;
    let thorough = tier == "thorough";
    let f = Findings::load();
    let ids = f.ids_for("C18");
    let groups = vec![FlatGroup {
        name: "tuple-histories".into(),
        size: tuple::n_cases(thorough),
        chunk: 16,
        what: "every (schema, initial row, update chain): x {no delete, delete} x every assignment of {committed-before, started-after, active, aborted, the reader itself} to creator, each updater and the deleter x every trimming horizon valid for that reader".into(),
    }, FlatGroup {
        name: "tuple-layouts".into(),
        size: tuple::n_layout_cases(thorough),
        chunk: 16,
        what: "every column layout of 1-4 (thorough: 5) value columns over the alignment classes {BOOL 1 byte, INT 4, BIGINT 8, TEXT variable} x every NULL mask x {no update, one column set to NULL, one column set to another value} x the same delete / state-assignment / horizon product".into(),
    }];
    run_flat(
        "C18",
        tier,
        "exploration",
        "tuple",
        tuple::params(thorough, ids.contains("KF-version-xmin-is-creator"), ids.contains("KT-bool-write")),
        groups,
        180,
        &[
            "the tuple code is driven through the verif facade (TupleBuilder::build, Tuple::add_version_with, Tuple::delete, Tuple::vaccum_with, TupleReader::parse_last_version / parse_for_snapshot, Snapshot::new)",
            "schemas: 1-2 key columns (quick), 0-3 value columns over {Int, BigInt, Double, Bool, Text}; values per type include NULL, empty and 300-byte text, i64::MIN, -0.0",
            "update chains: every subset of the value columns with every domain value, length <= 2 exhaustively (thorough: length 3 over a strided subset of 6 steps)",
            "a trimming horizon h is valid for a reader if the reader's id is >= h and no participating transaction below h is still active",
        ],
        "exhaustive enumeration by case index; evaluation = one (history, state assignment) decode or one (history, assignment, horizon) trim+decode; non-trivial = the history has at least one update or a delete",
        &|f: &str| f.split_once(" ## ").and_then(|(head, _)| head.split_whitespace().last().map(|s| s.to_string())).filter(|id| id.starts_with("KF-") || id.starts_with("KT-")),
    )
}

pub fn c19(tier: &str) -> i32 {
    use crate::engines::values;
    let n = values::grid_len();
    let groups = vec![
        FlatGroup { name: "singles".into(), size: n, chunk: 8, what: "every grid value: reflexivity, serialize->deserialize identity, cast to its own type, casts to the other numeric types (must preserve the mathematical value or fail)".into() },
        FlatGroup { name: "pairs".into(), size: n, chunk: 2, what: "ALL ordered pairs of grid values: symmetry of ==, == implies equal hashes, antisymmetry of partial_cmp, ordering consistent with ==, numeric comparison equal to exact mathematical comparison across integer/float types, text comparison equal to byte-wise lexicographic order".into() },
        FlatGroup { name: "triples".into(), size: n, chunk: 1, what: "ALL ordered triples: transitivity of == and of the ordering".into() },
        FlatGroup { name: "sql".into(), size: values::sql_types().len() as u64, chunk: 1, what: "per column type (INT, BIGINT, DOUBLE, TEXT): a table and a UNIQUE-indexed table holding the grid values; ORDER BY order, DISTINCT classes, = lookups (scan and index), < ranges, duplicate rejection - all against the exact reference order/equality".into() },
        FlatGroup { name: "text-pairs".into(), size: values::text_family().len() as u64, chunk: 16, what: "ALL ordered pairs of a text family built for the comparator's 8-byte chunking: every length 0..26, all 'm' except at most one position holding 'a', 'z' or a two-byte character - ordering must be byte-wise lexicographic, equality exact, equal texts hash equally".into() },
        FlatGroup { name: "composite".into(), size: values::composite_len(), chunk: 4, what: "every ordered pair and triple of the 8 SQL column types as a composite UNIQUE key: all combinations of 2-3 literals per column stored in scattered order; every stored key is found again by the unique check (re-insert refused) and by a point query, a key not stored is accepted".into() },
    ];
    run_flat(
        "C19",
        tier,
        "exploration",
        "values",
        values::params(),
        groups,
        180,
        &[
            "grid: NULL, both Bools, boundary values of Int/BigInt/UInt/BigUInt around 2^24, 2^31, 2^32, 2^53, 2^63, Float/Double incl. -0.0, subnormals, max, infinities, NaN, and texts incl. empty, prefix-related, non-ASCII at 8-byte-aligned offsets, 300 and 70 000 bytes",
            "reference: integers as i128, floats compared exactly (no rounding through f64), texts byte-wise",
            "three listed findings are applied by value class only: a failing law is attributed to them only if the pair/triple contains NaN, a floating zero (hash), or a value that f64 cannot represent exactly",
            "NaN and infinities cannot be written as SQL literals and are checked at the API level only",
        ],
        "exhaustive over the grid: every value, every ordered pair, every ordered triple; non-trivial = the law's premise held (equal pair, comparable numeric or text pair, chained triple)",
        &|f: &str| f.split_once(" ## ").and_then(|(head, _)| head.split_whitespace().last().map(|s| s.to_string())).filter(|id| id.starts_with("KF-") || id.starts_with("KT-")),
    )
}

pub fn c05(tier: &str) -> i32 {
    use crate::engines::sqlenum;
    use crate::findings::Findings;
    let thorough = tier == "thorough";
    let f = Findings::load();
    let listed: Vec<String> = f.ids_for("C05").into_iter().collect();
    let g = |name: &str, chunk: u64, what: &str| FlatGroup { name: name.into(), size: sqlenum::group_size(name), chunk, what: what.into() };
    let mut groups = vec![
        g("where-atoms", 16, "SELECT * FROM t WHERE a / NOT a / NOT NOT a for every typed atom: comparisons col-literal and col-col (6 operators), IS [NOT] NULL, [NOT] BETWEEN, [NOT] IN (with and without NULL in the list), [NOT] LIKE, text comparisons, arithmetic with every associativity/precedence shape and unary minus, TRUE/FALSE"),
        g("where-pairs", 256, "a AND b, a OR b for ALL ordered pairs of atoms"),
        g("typed-select", 32, "SELECT id, x op y FROM m for every ordered pair of 9 typed operands (a column of each numeric type INT, BIGINT, UINT, BIGUINT, FLOAT, DOUBLE and the literals 2, 0.5, 3000000000) and + - * / %, over 3 rows: the value AND the inferred type of the output column (a fraction must survive, an unsigned result must not turn negative)"),
        g("select-list", 32, "all ordered pairs of 12 select-list expressions (columns, arithmetic with precedence, unary minus, literals, NULL), plain and with aliases + WHERE"),
        g("aggregates", 16, "COUNT(*) and COUNT/SUM/AVG/MIN/MAX of every column under 4 predicates (incl. an empty input), GROUP BY v / s with each aggregate"),
        g("order-limit-distinct", 64, "ORDER BY every column asc/desc (ties compared as sets), two-key orders, LIMIT {0,1,2,6,100} x OFFSET {none,0,1,2,5,6,7}, DISTINCT on one and two columns"),
        g("joins", 8, "JOIN / INNER / LEFT / RIGHT x 4 ON conditions (equality, inequality, on a nullable column, conjunction) with and without WHERE, CROSS JOIN, comma join, 3-table joins written in every table order"),
        g("dml", 4, "DELETE and UPDATE ... WHERE atom for every atom, UPDATE with an expression and with several columns, multi-row INSERT, DELETE without WHERE: reported count and resulting table"),
    ];
    if thorough {
        groups.insert(2, g("where-triples-wide", 8192, "the same 10 three-atom shapes over ALL ordered triples of every second atom (26 atoms, 175 760 queries)"));
        groups.insert(2, g("where-triples", 512, "10 three-atom shapes printed with minimal parentheses (a OR b AND c, (a OR b) AND c, NOT a AND b, NOT (a AND b), ...) over ALL ordered triples of a 12-atom subset"));
    } else {
        // the quick tier still runs the triple shapes, over the first 6 atoms of the subset
        groups.insert(2, FlatGroup { name: "where-triples".into(), size: (sqlenum::group_size("where-triples") / 8).max(1), chunk: 256, what: "three-atom shapes with minimal parentheses over the first eighth of the ordered triples (thorough: all)".into() });
    }
    run_flat(
        "C05",
        tier,
        "exploration",
        "sqlenum",
        sqlenum::params(listed),
        groups,
        180,
        &[
            "populations: t(k INT, v INT, s TEXT) with 6 rows (NULLs in v and s, duplicates, negative, zero, i32::MAX, empty and prefix-related texts), u(k,w) with 5 rows (NULL key, duplicate key, NULL value), w(k,z) with 3 rows",
            "the reference evaluator interprets the expression TREE with SQL three-valued logic; the engine receives the tree printed with the fewest parentheses that standard SQL precedence allows, so parser binding powers are part of what is compared",
            "row multisets are compared where SQL leaves the order open; ORDER BY results are compared as sequences with ties as sets; NULL sorts as the largest value (engine convention, DESIGN appendix A.2)",
            "division, modulo, CASE, sub-queries, HAVING and scalar functions are not in this grammar (they belong to C16)",
        ],
        "exhaustive enumeration of the bounded query grammar listed under groups; non-trivial = the reference answer is neither empty nor the whole table",
        &|f: &str| f.split_once(" ## ").and_then(|(head, _)| head.split_whitespace().last().map(|s| s.to_string())).filter(|id| id.starts_with("KF-") || id.starts_with("KT-")),
    )
}

pub fn c16(tier: &str) -> i32 {
    use crate::engines::stmt;
    use crate::findings::Findings;
    let thorough = tier == "thorough";
    let f = Findings::load();
    let listed: Vec<String> = f.ids_for("C16").into_iter().collect();
    let g = |name: &str, chunk: u64, what: &str| FlatGroup { name: name.into(), size: stmt::group_size(name, thorough), chunk, what: what.into() };
    let groups = vec![
        // cheapest and most specific groups first: if the wall-clock cap is reached on a slow machine, what is cut is the
        // tail of the largest, least specific enumeration (reported as such in the evidence)
        g("typed", 8, "81 well-formed statements with wrong types, unknown names, zero divisors, NULL arguments, arity errors, HAVING/CASE/sub-queries, 1 MiB literals, against 3 schemas (plain, UNIQUE key, NOT NULL columns): result + probe + data unchanged after an error"),
        g("typed-session", 4, "the same statements at every position (before, between, after) of a three-statement session that must keep working and commit"),
        g("nesting", 1, "parentheses, NOT, unary minus, +, AND, IN-list, VALUES-list and sub-select nesting to depth 1..20000"),
        g("like-patterns", 256, "every LIKE pattern of length <= 4 over { %, _, \\%, \\_, \\\\, a, b } (plain, and negated up to length 3) against nine short texts with and without the special characters and NULL: each must come back"),
        g("long-names", 512, "failing statements whose error text echoes a table / column name of every length 1..300 made of 1-, 2-, 3- or 4-byte letters after 0-3 ASCII characters, and 100-1000-letter non-ASCII string literals and tokens"),
        g("symbols", 1024, "all strings of length <= 3 (thorough: 4) over 24 symbols: quotes, parentheses, operators, digits, a letter, NUL, U+0080, U+00FF, space"),
        g("mutations", 256, "every token-prefix, single-token deletion, duplication and substitution by each vocabulary token of 20 valid statements"),
        g("typed-arith", 512, "every ordered pair of 17 operands (a column of each SQL type INT, BIGINT, UINT, BIGUINT, FLOAT, DOUBLE, TEXT, BOOLEAN and literals 0, 1, -1, 0.0, 2.5, NULL, 'a', 2147483647, 9223372036854775807) under + - * / % = < >= plus unary minus, ABS and SUM/AVG of every operand, in the select list and in WHERE, against each of 6 rows (zeros, ones, negatives, NULLs, the largest and the smallest value of every numeric type)"),
        g("bytes-le2", 2048, "ALL strings of length <= 2 over the 256 byte values (as characters U+0000..U+00FF)"),
        g("tokens", 1024, "all token sequences of length <= 3 (thorough: 4) over a 58-token vocabulary (statement keywords, one table, two columns, literals, punctuation)"),
    ];
    run_flat(
        "C16",
        tier,
        "exploration",
        "stmt",
        stmt::params(thorough, listed),
        groups,
        120,
        &[
            "a panic inside a pool job is observed through a process-wide panic hook (pool size 2, the instance is rebuilt after a panic); a hang is the worker's watchdog (120 s per chunk, re-run one input at a time to name the input); a dead process (stack overflow, abort) is attributed the same way",
            "after every statement that got past the parser and failed, `SELECT * FROM t` must succeed and equal the data before; after a panic-free success that may have changed data the instance is rebuilt",
            "every input string is valid UTF-8 (the API takes &str); bytes are represented by the characters U+0000..U+00FF",
        ],
        "exhaustive enumeration of the bounded input sets listed under groups; non-trivial = the input got past the parser (bind/plan/execute reached)",
        &|f: &str| f.split_once(" ## ").and_then(|(head, _)| head.split_whitespace().last().map(|s| s.to_string())).filter(|id| id.starts_with("KF-") || id.starts_with("KT-")),
    )
}
