//! Evidence file writer (schema: /root/.vp/EVIDENCE.schema.json). Every count is measured by the run.

use serde_json::{json, Map, Value};
use std::time::Instant;

pub struct Evidence {
    pub property: String,
    pub tier: String,
    pub level: String,
    pub coverage: Map<String, Value>,
    pub assumptions: Vec<String>,
    pub violations: usize,
    pub t0: Instant,
}

pub fn tier() -> String {
    std::env::var("VERIF_TIER").ok().filter(|t| t == "quick" || t == "thorough").unwrap_or_else(|| "quick".into())
}

pub fn seed() -> i64 {
    std::env::var("VERIF_SEED").ok().and_then(|s| s.parse().ok()).unwrap_or(0)
}

impl Evidence {
    pub fn new(property: &str, tier: &str, level: &str) -> Evidence {
        Evidence {
            property: property.into(),
            tier: tier.into(),
            level: level.into(),
            coverage: Map::new(),
            assumptions: vec![],
            violations: 0,
            t0: Instant::now(),
        }
    }
    pub fn set(&mut self, k: &str, v: Value) {
        self.coverage.insert(k.into(), v);
    }
    pub fn assume(&mut self, s: &str) {
        self.assumptions.push(s.into());
    }
    pub fn write(&self) {
        let root = crate::findings::verif_root();
        let dir = root.join("evidence");
        let _ = std::fs::create_dir_all(&dir);
        let v = json!({
            "property_id": self.property,
            "tier": self.tier,
            "seed": seed(),
            "level": self.level,
            "coverage": Value::Object(self.coverage.clone()),
            "assumptions": self.assumptions,
            "wall_s": (self.t0.elapsed().as_secs_f64() * 100.0).round() / 100.0,
            "violations": self.violations,
        });
        let p = dir.join(format!("{}.json", self.property));
        std::fs::write(&p, serde_json::to_string_pretty(&v).unwrap()).expect("write evidence");
    }
}

/// Write a replay artefact and return its path.
pub fn write_replay(property: &str, body: &Value) -> String {
    use std::hash::{Hash, Hasher};
    let root = crate::findings::verif_root();
    let dir = root.join("replays");
    let _ = std::fs::create_dir_all(&dir);
    let text = serde_json::to_string_pretty(body).unwrap();
    let mut h = std::collections::hash_map::DefaultHasher::new();
    text.hash(&mut h);
    let p = dir.join(format!("{}-{:012x}.json", property, h.finish() & 0xffff_ffff_ffff));
    std::fs::write(&p, text).expect("write replay");
    p.to_string_lossy().into_owned()
}
