//! `plan` engine (C06): database histories (seq engine + reference model) and, in every reached
//! state, a family of queries each written in several semantically identical ways that force
//! different plans (index scan vs table scan, join orders). Every variant must return the answer
//! the reference evaluator gives on the model's committed contents, hence also agree with each other.

use crate::engines::seq::{enabled, Exec, SeqParams, StepVerdict};
use crate::explore::StepReport;
use crate::model::*;
use crate::sqldrv::*;
use crate::sqlmodel::*;
use serde::{Deserialize, Serialize};
use serde_json::Value;
use std::collections::BTreeMap;

#[derive(Debug, Clone, Serialize, Deserialize)]
pub struct PlanParams {
    pub seq: SeqParams,
}

fn committed(m: &Model, table: &str) -> Option<Vec<Vec<Val>>> {
    let mut mm = m.clone();
    let names = mm.committed_tables();
    let exps = mm.apply(&Op::Audit);
    for (n, e) in names.into_iter().zip(exps.into_iter()) {
        if n == table {
            if let Exp::Rows(r) = e {
                return Some(r);
            }
        }
    }
    None
}

struct QClass {
    name: String,
    expect: Vec<Vec<Val>>,
    variants: Vec<String>,
}

fn pk() -> E {
    col("k", 0)
}
fn pv() -> E {
    col("v", 1)
}

fn single_table_classes(p_rows: &[Vec<Val>]) -> Vec<QClass> {
    let mut out = vec![];
    let filt = |e: &E| -> Vec<Vec<Val>> { p_rows.iter().filter(|r| eval(e, r) == Ok(Val::Bool(true))).cloned().collect() };
    let wrap = |x: E| ar(x, ArOp::Add, int(0));
    for c in [1i128, 2, 3, 9] {
        for (op, name) in [(CmpOp::Eq, "="), (CmpOp::Gt, ">"), (CmpOp::Ge, ">="), (CmpOp::Lt, "<"), (CmpOp::Le, "<=")] {
            let e = cmp(pk(), op, int(c));
            let flipped = match op {
                CmpOp::Eq => CmpOp::Eq,
                CmpOp::Gt => CmpOp::Lt,
                CmpOp::Ge => CmpOp::Le,
                CmpOp::Lt => CmpOp::Gt,
                CmpOp::Le => CmpOp::Ge,
                CmpOp::Ne => CmpOp::Ne,
            };
            out.push(QClass {
                name: format!("k {name} {c}"),
                expect: filt(&e),
                variants: vec![
                    format!("SELECT * FROM p WHERE {}", render(&e)),
                    format!("SELECT * FROM p WHERE {}", render(&cmp(wrap(pk()), op, int(c)))),
                    format!("SELECT * FROM p WHERE {}", render(&cmp(int(c), flipped, pk()))),
                    format!("SELECT * FROM p WHERE {} AND v = v", render(&e)),
                ],
            });
        }
        // residual predicate next to the indexed one
        let e = and(cmp(pk(), CmpOp::Ge, int(c)), cmp(pv(), CmpOp::Lt, int(25)));
        out.push(QClass {
            name: format!("k >= {c} AND v < 25"),
            expect: filt(&e),
            variants: vec![
                format!("SELECT * FROM p WHERE {}", render(&e)),
                format!("SELECT * FROM p WHERE {}", render(&and(cmp(pv(), CmpOp::Lt, int(25)), cmp(pk(), CmpOp::Ge, int(c))))),
                format!("SELECT * FROM p WHERE {}", render(&and(cmp(wrap(pk()), CmpOp::Ge, int(c)), cmp(pv(), CmpOp::Lt, int(25))))),
            ],
        });
    }
    // literals with a fractional part against the integer key: an index range bound and a filter must agree on
    // where 2.5 falls between the keys 2 and 3 (and -0.5 below every key)
    for (lit, x) in [("2.5", 2.5f64), ("1.5", 1.5), ("0.5", 0.5), ("-0.5", -0.5)] {
        for (name, flipped, f) in [
            ("=", "=", (|k: f64, x: f64| k == x) as fn(f64, f64) -> bool),
            (">", "<", |k, x| k > x),
            (">=", "<=", |k, x| k >= x),
            ("<", ">", |k, x| k < x),
            ("<=", ">=", |k, x| k <= x),
        ] {
            let expect: Vec<Vec<Val>> = p_rows.iter().filter(|r| matches!(r[0], Val::Int(k) if f(k as f64, x))).cloned().collect();
            out.push(QClass {
                name: format!("k {name} {lit}"),
                expect,
                variants: vec![
                    format!("SELECT * FROM p WHERE k {name} {lit}"),
                    format!("SELECT * FROM p WHERE k + 0 {name} {lit}"),
                    format!("SELECT * FROM p WHERE {lit} {flipped} k"),
                    format!("SELECT * FROM p WHERE k {name} {lit} AND v = v"),
                ],
            });
        }
    }
    let e = E::Between(Box::new(pk()), Box::new(int(2)), Box::new(int(3)), false);
    out.push(QClass {
        name: "k BETWEEN 2 AND 3".into(),
        expect: filt(&e),
        variants: vec![
            format!("SELECT * FROM p WHERE {}", render(&e)),
            "SELECT * FROM p WHERE k >= 2 AND k <= 3".into(),
            "SELECT * FROM p WHERE k + 0 BETWEEN 2 AND 3".into(),
            "SELECT * FROM p WHERE k IN (2, 3)".into(),
        ],
    });
    let e = or(cmp(pk(), CmpOp::Eq, int(1)), cmp(pk(), CmpOp::Eq, int(3)));
    out.push(QClass { name: "k = 1 OR k = 3".into(), expect: filt(&e), variants: vec![format!("SELECT * FROM p WHERE {}", render(&e)), "SELECT * FROM p WHERE k IN (1, 3)".into(), "SELECT * FROM p WHERE k + 0 = 1 OR k + 0 = 3".into()] });
    out.push(QClass { name: "all rows".into(), expect: p_rows.to_vec(), variants: vec!["SELECT * FROM p".into(), "SELECT * FROM p WHERE k = k OR k IS NULL".into(), "SELECT k, v FROM p".into()] });
    out
}

fn join_classes(p_rows: &[Vec<Val>], q_rows: &[Vec<Val>]) -> Vec<QClass> {
    let mut exp = vec![];
    for a in p_rows {
        for b in q_rows {
            if a[0] != Val::Null && a[0] == b[0] {
                exp.push(vec![a[0].clone(), a[1].clone(), b[1].clone()]);
            }
        }
    }
    let exp2: Vec<Vec<Val>> = exp.iter().filter(|r| matches!(&r[0], Val::Int(k) if *k >= 2)).cloned().collect();
    // ON condition + WHERE with a single-table conjunct AND a conjunct over both tables (filter push-down through the join)
    let lt = |a: &Val, b: &Val| matches!((a, b), (Val::Int(x), Val::Int(y)) if x < y);
    let exp3: Vec<Vec<Val>> = exp.iter().filter(|r| matches!(&r[0], Val::Int(k) if *k >= 1) && lt(&r[1], &r[2])).cloned().collect();
    vec![
        QClass {
            name: "p join q on k".into(),
            expect: exp,
            variants: vec![
                "SELECT p.k, p.v, q.w FROM p JOIN q ON p.k = q.k".into(),
                "SELECT p.k, p.v, q.w FROM q JOIN p ON p.k = q.k".into(),
                "SELECT p.k, p.v, q.w FROM p, q WHERE p.k = q.k".into(),
                "SELECT p.k, p.v, q.w FROM q, p WHERE p.k = q.k".into(),
                "SELECT p.k, p.v, q.w FROM p JOIN q ON p.k + 0 = q.k + 0".into(),
            ],
        },
        QClass {
            name: "p join q on k where p.k >= 1 and p.v < q.w".into(),
            expect: exp3,
            variants: vec![
                "SELECT p.k, p.v, q.w FROM p JOIN q ON p.k = q.k WHERE p.k >= 1 AND p.v < q.w".into(),
                "SELECT p.k, p.v, q.w FROM p JOIN q ON p.k = q.k WHERE p.v < q.w AND p.k >= 1".into(),
                "SELECT p.k, p.v, q.w FROM p JOIN q ON p.k = q.k AND p.v < q.w WHERE p.k >= 1".into(),
                "SELECT p.k, p.v, q.w FROM p JOIN q ON p.k = q.k AND p.v < q.w AND p.k >= 1".into(),
                "SELECT p.k, p.v, q.w FROM p, q WHERE p.k = q.k AND p.k >= 1 AND p.v < q.w".into(),
                "SELECT p.k, p.v, q.w FROM q JOIN p ON p.k = q.k WHERE p.k + 0 >= 1 AND p.v + 0 < q.w".into(),
            ],
        },
        QClass {
            name: "p join q on k where p.k >= 2".into(),
            expect: exp2,
            variants: vec![
                "SELECT p.k, p.v, q.w FROM p JOIN q ON p.k = q.k WHERE p.k >= 2".into(),
                "SELECT p.k, p.v, q.w FROM p, q WHERE p.k = q.k AND p.k >= 2".into(),
                "SELECT p.k, p.v, q.w FROM q, p WHERE p.k >= 2 AND p.k = q.k".into(),
                "SELECT p.k, p.v, q.w FROM p JOIN q ON p.k = q.k WHERE q.k >= 2".into(),
            ],
        },
    ]
}

/// three-table joins over a(k, v) [duplicate k allowed], b(k, w), c(k, v, z)
fn three_way_classes(a: &[Vec<Val>], b: &[Vec<Val>], c: &[Vec<Val>]) -> Vec<QClass> {
    let eq = |x: &Val, y: &Val| *x != Val::Null && *y != Val::Null && val_eq(x, y);
    let mut composite = vec![];
    let mut chain = vec![];
    for ra in a {
        for rb in b {
            if !eq(&ra[0], &rb[0]) {
                continue;
            }
            for rc in c {
                if eq(&ra[0], &rc[0]) && eq(&ra[1], &rc[1]) {
                    composite.push(vec![ra[0].clone(), ra[1].clone(), rb[1].clone(), rc[2].clone()]);
                }
                if eq(&rb[0], &rc[0]) {
                    chain.push(vec![ra[0].clone(), ra[1].clone(), rb[1].clone(), rc[2].clone()]);
                }
            }
        }
    }
    let sel = "SELECT a.k, a.v, b.w, c.z FROM";
    vec![
        QClass {
            name: "a-b on k, a-c on (k, v)".into(),
            expect: composite,
            variants: vec![
                format!("{sel} a JOIN b ON a.k = b.k JOIN c ON a.k = c.k AND a.v = c.v"),
                format!("{sel} a JOIN c ON a.k = c.k AND a.v = c.v JOIN b ON a.k = b.k"),
                format!("{sel} a JOIN b ON a.k + 0 = b.k + 0 JOIN c ON a.k + 0 = c.k + 0 AND a.v + 0 = c.v + 0"),
                format!("{sel} a, b, c WHERE a.k = b.k AND a.k = c.k AND a.v = c.v"),
                format!("{sel} c, b, a WHERE a.k = b.k AND a.k = c.k AND a.v = c.v"),
                format!("{sel} b JOIN a ON a.k = b.k JOIN c ON c.k = a.k AND c.v = a.v"),
                format!("{sel} a JOIN b ON a.k = b.k JOIN c ON a.v = c.v AND a.k = c.k"),
            ],
        },
        QClass {
            name: "a-b on k AND b.w = 100, b-c on k (an ON conjunct that names the middle table only)".into(),
            expect: chain.iter().filter(|r| r[2] == Val::Int(100)).cloned().collect(),
            variants: vec![
                format!("{sel} a JOIN b ON a.k = b.k AND b.w = 100 JOIN c ON b.k = c.k"),
                format!("{sel} a JOIN b ON a.k = b.k JOIN c ON b.k = c.k WHERE b.w = 100"),
                format!("{sel} a JOIN b ON a.k = b.k JOIN c ON b.k = c.k AND b.w = 100"),
                format!("{sel} a, b, c WHERE a.k = b.k AND b.k = c.k AND b.w = 100"),
                format!("{sel} a JOIN b ON a.k = b.k AND b.w + 0 = 100 JOIN c ON b.k = c.k"),
            ],
        },
        QClass {
            name: "a-b on k, b-c on k".into(),
            expect: chain,
            variants: vec![
                format!("{sel} a JOIN b ON a.k = b.k JOIN c ON b.k = c.k"),
                format!("{sel} b JOIN c ON b.k = c.k JOIN a ON a.k = b.k"),
                format!("{sel} c JOIN b ON b.k = c.k JOIN a ON b.k = a.k"),
                format!("{sel} a, b, c WHERE a.k = b.k AND b.k = c.k"),
                format!("{sel} a JOIN b ON a.k + 0 = b.k JOIN c ON b.k + 0 = c.k"),
            ],
        },
    ]
}

/// a small table p(k, v) joined with a much larger one g(k, w TEXT): after ANALYZE the cost model prefers to
/// exchange the join inputs, so these classes reach the join-commutativity alternative; the tables also differ in
/// width, so a column read at the wrong position cannot go unnoticed
fn asymmetric_classes(p: &[Vec<Val>], g: &[Vec<Val>]) -> Vec<QClass> {
    let key = |r: &Vec<Val>| if let Val::Int(k) = &r[0] { Some(*k) } else { None };
    let pairs = |f: &dyn Fn(i128, i128) -> bool| -> Vec<Vec<Val>> {
        let mut out = vec![];
        for a in p {
            for b in g {
                if let (Some(x), Some(y)) = (key(a), key(b)) {
                    if f(x, y) {
                        out.push(vec![Val::Int(x), Val::Int(y)]);
                    }
                }
            }
        }
        out
    };
    let sel = "SELECT p.k, g.k FROM";
    vec![
        QClass {
            name: "p.k > g.k (non-equi)".into(),
            expect: pairs(&|x, y| x > y),
            variants: vec![
                format!("{sel} p JOIN g ON p.k > g.k"),
                format!("{sel} g JOIN p ON p.k > g.k"),
                format!("{sel} p, g WHERE p.k > g.k"),
                format!("{sel} p JOIN g ON g.k < p.k"),
                format!("{sel} p JOIN g ON p.k + 0 > g.k + 0"),
            ],
        },
        QClass {
            name: "p.k = g.k (equi, inputs of different width and size)".into(),
            expect: pairs(&|x, y| x == y),
            variants: vec![
                format!("{sel} p JOIN g ON p.k = g.k"),
                format!("{sel} g JOIN p ON p.k = g.k"),
                format!("{sel} g JOIN p ON g.k = p.k"),
                format!("{sel} p, g WHERE p.k = g.k"),
                format!("{sel} p JOIN g ON p.k + 0 = g.k + 0"),
            ],
        },
        QClass {
            name: "p.k >= g.k AND g.k > 0 AND p.v > 10".into(),
            expect: {
                let mut out = vec![];
                for a in p {
                    for b in g {
                        if let (Some(x), Some(y), Val::Int(v)) = (key(a), key(b), &a[1]) {
                            if x >= y && y > 0 && *v > 10 {
                                out.push(vec![Val::Int(x), Val::Int(y)]);
                            }
                        }
                    }
                }
                out
            },
            variants: vec![
                format!("{sel} p JOIN g ON p.k >= g.k WHERE g.k > 0 AND p.v > 10"),
                format!("{sel} g JOIN p ON p.k >= g.k AND g.k > 0 WHERE p.v > 10"),
                format!("{sel} p, g WHERE p.k >= g.k AND g.k > 0 AND p.v > 10"),
                format!("{sel} p JOIN g ON p.k >= g.k AND g.k > 0 AND p.v > 10"),
            ],
        },
    ]
}

/// composite unique index: m(a, b, v) with UNIQUE(a, b)
fn composite_classes(rows: &[Vec<Val>]) -> Vec<QClass> {
    let a = || col("a", 0);
    let b = || col("b", 1);
    let filt = |e: &E| -> Vec<Vec<Val>> { rows.iter().filter(|r| eval(e, r) == Ok(Val::Bool(true))).cloned().collect() };
    let wrap = |x: E| ar(x, ArOp::Add, int(0));
    let mut out = vec![];
    let mut push = |name: String, bare: E, wrapped: E| {
        out.push(QClass { name, expect: filt(&bare), variants: vec![format!("SELECT * FROM m WHERE {}", render(&bare)), format!("SELECT * FROM m WHERE {}", render(&wrapped)), format!("SELECT * FROM m WHERE {} AND v = v", render(&bare))] });
    };
    for c in [0i128, 1, 3, 9] {
        for (op, sym) in [(CmpOp::Eq, "="), (CmpOp::Le, "<="), (CmpOp::Lt, "<"), (CmpOp::Ge, ">="), (CmpOp::Gt, ">")] {
            // bound on the NON-leading column only
            push(format!("b {sym} {c}"), cmp(b(), op, int(c)), cmp(wrap(b()), op, int(c)));
            // bound on the leading column only
            push(format!("a {sym} {c}"), cmp(a(), op, int(c)), cmp(wrap(a()), op, int(c)));
            // leading column pinned, second column bounded
            for a0 in [0i128, 2] {
                push(format!("a = {a0} AND b {sym} {c}"), and(cmp(a(), CmpOp::Eq, int(a0)), cmp(b(), op, int(c))), and(cmp(wrap(a()), CmpOp::Eq, int(a0)), cmp(wrap(b()), op, int(c))));
            }
            // leading column bounded, second pinned
            push(format!("a {sym} 1 AND b = {c}"), and(cmp(a(), op, int(1)), cmp(b(), CmpOp::Eq, int(c))), and(cmp(wrap(a()), op, int(1)), cmp(wrap(b()), CmpOp::Eq, int(c))));
        }
    }
    out
}

fn rows_match(got: &[Vec<Val>], want: &[Vec<Val>]) -> bool {
    if got.len() != want.len() {
        return false;
    }
    let (mut g, mut w) = (got.to_vec(), want.to_vec());
    g.sort();
    w.sort();
    g.iter().zip(w.iter()).all(|(a, b)| a.len() == b.len() && a.iter().zip(b.iter()).all(|(x, y)| val_eq(x, y)))
}

pub fn run_once(p: &PlanParams, hist: &[usize]) -> StepReport {
    let mut rep = StepReport::default();
    let sp = &p.seq;
    let mut ex = match Exec::new(sp) {
        Ok(e) => e,
        Err(e) => {
            rep.status = "machinery".into();
            rep.detail = e;
            return rep;
        }
    };
    let mut taint: Vec<String> = vec![];
    let mut ops: Vec<&Op> = sp.prefix.iter().collect();
    let np = ops.len();
    for i in hist {
        ops.push(&sp.alphabet[*i]);
    }
    for (i, op) in ops.iter().enumerate() {
        let last = i + 1 == ops.len();
        if !enabled(&ex.model, op) {
            rep.status = if last && i >= np { "disabled".into() } else { "machinery".into() };
            rep.detail = format!("op not enabled: {}", op.show());
            return rep;
        }
        let verdict = ex.step(op, sp.cfg);
        if ex.model.tainted() {
            // a listed hazard fired: the history is not extended; the query family still runs so that a
            // listed finding that really shows as a plan-dependent answer is re-observed ("known")
            taint = ex.model.taint.clone();
            if !last {
                rep.findings = taint;
                rep.status = "tainted".into();
                rep.stop = true;
                rep.key = ex.model.key();
                return rep;
            }
        }
        if let StepVerdict::Diverged(d) = verdict {
            // ANALYZE occurs in no other check's alphabet: a statement that answers differently because ANALYZE ran earlier
            // in the history is this property's business (statistics must never change an answer)
            if taint.is_empty() && ops[..=i].iter().any(|o| matches!(o, Op::Analyze)) {
                rep.status = "violation".into();
                rep.detail = format!("after ANALYZE a statement of the history itself no longer answers as the reference model says: {d}\n{}", ex.log.join("\n"));
                rep.stop = true;
                rep.key = ex.model.key();
                return rep;
            }
            // any other divergence of the history itself is the seq-based checks' business, not a plan question
            rep.status = "tainted".into();
            rep.findings = vec!["live-divergence".into()];
            rep.detail = d;
            rep.stop = true;
            rep.key = ex.model.key();
            return rep;
        }
    }
    rep.key = ex.model.key();
    let mut classes = vec![];
    if let Some(p_rows) = committed(&ex.model, "p") {
        classes.extend(single_table_classes(&p_rows));
        if let Some(q_rows) = committed(&ex.model, "q") {
            classes.extend(join_classes(&p_rows, &q_rows));
        }
    }
    if let (Some(p_rows), Some(g_rows)) = (committed(&ex.model, "p"), committed(&ex.model, "g")) {
        classes.extend(asymmetric_classes(&p_rows, &g_rows));
    }
    if let Some(m_rows) = committed(&ex.model, "m") {
        classes.extend(composite_classes(&m_rows));
    }
    if let (Some(a), Some(b), Some(c)) = (committed(&ex.model, "a"), committed(&ex.model, "b"), committed(&ex.model, "c")) {
        classes.extend(three_way_classes(&a, &b, &c));
    }
    let mut counters: BTreeMap<String, u64> = BTreeMap::new();
    let mut problem: Option<String> = None;
    let mut digest = String::new();
    'outer: for c in &classes {
        let mut plans: Vec<String> = vec![];
        for sql in &c.variants {
            *counters.entry("queries".into()).or_insert(0) += 1;
            let out = ex.db.exec(sql);
            match &out {
                Out::Rows(rows) => {
                    if !rows_match(rows, &c.expect) {
                        problem = Some(format!("class `{}`: `{sql}` returns {} but the answer of the query as written is {}", c.name, out.show().chars().take(300).collect::<String>(), Out::Rows(c.expect.clone()).show().chars().take(300).collect::<String>()));
                        break 'outer;
                    }
                    digest.push_str(&format!("{}:{};", rows.len(), c.name.len()));
                }
                other => {
                    problem = Some(format!("class `{}`: `{sql}` fails: {}", c.name, other.show().chars().take(300).collect::<String>()));
                    break 'outer;
                }
            }
            if ex.db.poisoned {
                problem = Some(format!("class `{}`: `{sql}` panicked: {}", c.name, last_panic()));
                break 'outer;
            }
            match ex.db.explain(sql) {
                Ok(plan) => plans.push(plan),
                Err(e) => {
                    problem = Some(format!("EXPLAIN of `{sql}` failed: {e}"));
                    break 'outer;
                }
            }
        }
        let with_index = plans.iter().filter(|p| p.contains("IndexScan")).count();
        if with_index > 0 && with_index < plans.len() {
            *counters.entry("classes_with_index_and_table_scan_variants".into()).or_insert(0) += 1;
        }
        let shapes: std::collections::BTreeSet<String> = plans.iter().map(|p| p.lines().map(|l| l.split("(cost").next().unwrap_or("").trim().trim_start_matches(['├', '─', '└', ' ', '│']).to_string()).collect::<Vec<_>>().join("/")).collect();
        if shapes.len() > 1 {
            *counters.entry("classes_with_different_plan_shapes".into()).or_insert(0) += 1;
        }
    }
    for (k, v) in &ex.counters {
        counters.insert(k.clone(), *v);
    }
    rep.counters = counters;
    rep.outcome = {
        use std::hash::{Hash, Hasher};
        let mut h = std::collections::hash_map::DefaultHasher::new();
        digest.hash(&mut h);
        format!("{:x}", h.finish())
    };
    if !taint.is_empty() {
        rep.findings = taint;
        rep.stop = true;
        match problem {
            Some(pb) => {
                rep.status = "known".into();
                rep.detail = format!("{pb}\n{}", ex.log.join("\n"));
            }
            None => rep.status = "tainted".into(),
        }
    } else if let Some(pb) = problem {
        let known = sp.hazards.iter().find(|h| trigger_matches(h, &pb));
        rep.status = if known.is_some() { "known".into() } else { "violation".into() };
        if let Some(k) = known {
            rep.findings = vec![k.clone()];
        }
        rep.detail = format!("{pb}\n{}", ex.log.join("\n"));
        rep.stop = true;
    } else {
        rep.status = "ok".into();
    }
    rep
}

fn trigger_matches(id: &str, problem: &str) -> bool {
    match id {
        "KT-join-on-reversed-sides" => problem.contains("FROM q JOIN p ON p.k = q.k") && problem.contains("column index out of bounds"),
        _ => false,
    }
}

pub fn worker(params: &Value, case: &Value) -> Value {
    let p: PlanParams = serde_json::from_value(params.clone()).expect("plan params");
    let hist: Vec<usize> = serde_json::from_value(case["hist"].clone()).expect("hist");
    let mut rep = run_once(&p, &hist);
    if rep.status == "violation" {
        let first_line = crate::explore::failure_signature;
        let mut n = 0;
        for _ in 0..2 {
            let r2 = run_once(&p, &hist);
            if r2.status == "violation" && first_line(&r2.detail) == first_line(&rep.detail) {
                n += 1;
            }
        }
        rep.reproduced = n;
    }
    serde_json::to_value(rep).unwrap()
}
