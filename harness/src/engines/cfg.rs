//! `cfg` engine (C12): the same history is executed from scratch under every configuration of a grid
//! (page size x cache x pool x min keys x siblings). Under every configuration each result and the
//! final contents must conform to the reference model (hence be identical across configurations) and
//! the digests of everything the engine returned must be equal. The one permitted difference is an
//! explicit out-of-memory error under a cache below the documented range.

use crate::engines::seq::{self, SeqParams};
use crate::explore::StepReport;
use crate::sqldrv::Cfg;
use serde::{Deserialize, Serialize};
use serde_json::Value;
use std::collections::BTreeMap;

#[derive(Debug, Clone, Serialize, Deserialize)]
pub struct CfgParams {
    pub seq: SeqParams,
    pub cfgs: Vec<Cfg>,
    /// caches strictly below this many pages may answer with an explicit out-of-memory error
    pub oom_allowed_below: usize,
}

fn show(c: &Cfg) -> String {
    format!("page_size={} cache={} pool={} min_keys={} siblings={}", c.page_size, c.cache, c.pool, c.min_keys, c.siblings)
}

fn is_oom(detail: &str) -> bool {
    let first = detail.lines().next().unwrap_or("").to_lowercase();
    first.contains("out of memory")
}

pub fn run_once(p: &CfgParams, hist: &[usize]) -> StepReport {
    let mut counters: BTreeMap<String, u64> = BTreeMap::new();
    let mut first: Option<(Cfg, StepReport)> = None;
    for c in &p.cfgs {
        let mut sp = p.seq.clone();
        sp.cfg = *c;
        sp.reopen_cfg = p.seq.reopen_cfg.or(Some(*c));
        sp.oom_tolerant = c.cache < p.oom_allowed_below;
        let r = seq::run_once(&sp, hist);
        *counters.entry("configuration_runs".into()).or_insert(0) += 1;
        match r.status.as_str() {
            "ok" => {}
            "violation" => {
                if is_oom(&r.detail) && c.cache < p.oom_allowed_below {
                    *counters.entry("permitted_out_of_memory_answers".into()).or_insert(0) += 1;
                    continue;
                }
                let mut r = r;
                r.detail = format!("[configuration {}] {}", show(c), r.detail);
                r.counters = counters;
                return r;
            }
            // disabled / tainted / known / machinery do not depend on the configuration (they come from the
            // model), except "known" vs "tainted" which only says whether a hazard was seen to bite
            _ => {
                let mut r = r;
                r.counters = counters;
                return r;
            }
        }
        for (k, v) in &r.counters {
            *counters.entry(k.clone()).or_insert(0) += v;
        }
        if r.counters.get("permitted_out_of_memory_answers").copied().unwrap_or(0) > 0 {
            // this configuration legitimately answered differently somewhere; it was judged against the model
            continue;
        }
        match &first {
            None => first = Some((*c, r)),
            Some((c0, r0)) => {
                if r0.outcome != r.outcome {
                    let mut bad = r.clone();
                    bad.status = "violation".into();
                    bad.stop = true;
                    bad.detail = format!("configurations disagree on the results of the same statements: [{}] vs [{}] (both conform to the model's row sets; the difference is in counts / order-insensitive digests)", show(c0), show(c));
                    bad.counters = counters;
                    return bad;
                }
            }
        }
    }
    match first {
        Some((_, mut r)) => {
            r.counters = counters;
            r
        }
        None => {
            let mut r = StepReport::default();
            r.status = "machinery".into();
            r.detail = "every configuration answered out of memory".into();
            r
        }
    }
}

pub fn worker(params: &Value, case: &Value) -> Value {
    let p: CfgParams = serde_json::from_value(params.clone()).expect("cfg params");
    let hist: Vec<usize> = serde_json::from_value(case["hist"].clone()).expect("hist");
    let mut rep = run_once(&p, &hist);
    if rep.status == "violation" {
        let first_line = crate::explore::failure_signature;
        let mut n = 0;
        for _ in 0..2 {
            let r2 = run_once(&p, &hist);
            if r2.status == "violation" && first_line(&r2.detail) == first_line(&rep.detail) {
                n += 1;
            }
        }
        rep.reproduced = n;
    }
    serde_json::to_value(rep).unwrap()
}
