//! `tuple` engine (C18): exhaustive enumeration of small schemas x rows x update chains x optional
//! delete x creator-state assignments x vacuum horizons on the real tuple code (verif facade),
//! against a list-of-versions model with the visibility rule the property states.

use axmosdb::verif::facade::{ColKind, SnapSpec, TupleEnv, V};
use serde::{Deserialize, Serialize};
use serde_json::{json, Value};

fn guard<T>(f: impl FnOnce() -> Result<T, String>) -> Result<T, String> {
    match std::panic::catch_unwind(std::panic::AssertUnwindSafe(f)) {
        Ok(r) => r,
        Err(_) => Err(format!("PANIC: {}", crate::sqldrv::last_panic())),
    }
}

/// schemas: (number of key columns, column kinds). The first entries are the quick set.
pub fn schemas(thorough: bool) -> Vec<(usize, Vec<ColKind>)> {
    use ColKind::*;
    let mut v: Vec<(usize, Vec<ColKind>)> = vec![
        (1, vec![BigInt]),
        (1, vec![BigInt, Int]),
        (1, vec![BigInt, Text]),
        (1, vec![BigInt, Double]),
        (1, vec![BigInt, BigInt]),
        (1, vec![BigInt, Bool]),
        (1, vec![BigInt, Int, Text]),
        (1, vec![BigInt, Text, Int]),
        (1, vec![BigInt, Text, Text]),
        (1, vec![BigInt, Double, Text]),
        (1, vec![BigInt, Int, Bool]),
        (1, vec![BigInt, Bool, Int]),
        (2, vec![Int, Text, Int]),
        (2, vec![Int, Text, Text, Double]),
        (2, vec![Text, BigInt, Text]),
    ];
    if thorough {
        for a in [Int, BigInt, Double, Text] {
            for b in [Int, BigInt, Double, Text] {
                for c in [Int, Double, Text] {
                    v.push((1, vec![BigInt, a, b, c]));
                }
            }
        }
        v.push((3, vec![Int, Text, BigInt, Text, Int]));
    }
    v
}

fn domain(k: ColKind) -> Vec<V> {
    match k {
        ColKind::Int => vec![V::Int(0), V::Int(-7), V::Null],
        ColKind::BigInt => vec![V::BigInt(i64::MIN), V::BigInt(9), V::Null],
        ColKind::Double => vec![V::Double(0.5), V::Double(-0.0), V::Null],
        ColKind::Bool => vec![V::Bool(true), V::Bool(false), V::Null],
        ColKind::Text => vec![V::Text(String::new()), V::Text("x".into()), V::Text("L".repeat(300)), V::Null],
    }
}
fn key_value(k: ColKind, i: usize) -> V {
    match k {
        ColKind::Int => V::Int(3 + i as i32),
        ColKind::BigInt => V::BigInt(7 + i as i64),
        ColKind::Double => V::Double(1.5),
        ColKind::Bool => V::Bool(true),
        ColKind::Text => V::Text(["k", ""][i % 2].to_string()),
    }
}

fn veq(a: &V, b: &V) -> bool {
    match (a, b) {
        (V::Double(x), V::Double(y)) => x.to_bits() == y.to_bits(),
        _ => a == b,
    }
}
fn row_eq(a: &[V], b: &[V]) -> bool {
    a.len() == b.len() && a.iter().zip(b.iter()).all(|(x, y)| veq(x, y))
}

/// state of a participating transaction relative to the reader
#[derive(Clone, Copy, PartialEq, Debug)]
enum St {
    CommittedBefore,
    After,
    Active,
    Aborted,
    Reader,
}
const STATES: [St; 5] = [St::CommittedBefore, St::After, St::Active, St::Aborted, St::Reader];
const READER: u64 = 100;

fn tx_id(j: usize, st: St) -> u64 {
    match st {
        St::CommittedBefore | St::Active | St::Aborted => 10 + 10 * j as u64,
        St::After => 200 + 10 * j as u64,
        St::Reader => READER,
    }
}
fn visible(st: St) -> bool {
    matches!(st, St::CommittedBefore | St::Reader)
}

#[derive(Debug, Clone, Serialize, Deserialize)]
pub struct Chunk {
    pub group: String,
    pub start: u64,
    pub end: u64,
    #[serde(default)]
    pub single: bool,
    #[serde(default)]
    pub side: String,
}

#[derive(Debug, Clone, Default, Serialize, Deserialize)]
pub struct ChunkReport {
    pub evaluations: u64,
    pub nontrivial: u64,
    pub failures: Vec<String>,
    pub sample: String,
}

/// all update steps for a schema: each value column unchanged or set to one of its domain values (at least one change)
fn update_steps(kinds: &[ColKind], nk: usize) -> Vec<Vec<(usize, V)>> {
    let vals: Vec<Vec<Option<V>>> = kinds[nk..]
        .iter()
        .map(|k| {
            let mut v: Vec<Option<V>> = vec![None];
            v.extend(domain(*k).into_iter().map(Some));
            v
        })
        .collect();
    let mut out = vec![];
    let total: usize = vals.iter().map(|v| v.len()).product();
    for code in 1..total.max(1) {
        let mut c = code;
        let mut step = vec![];
        for (i, v) in vals.iter().enumerate() {
            let pick = c % v.len();
            c /= v.len();
            if let Some(x) = &v[pick] {
                step.push((i, x.clone()));
            }
        }
        if !step.is_empty() {
            out.push(step);
        }
    }
    out
}

fn initial_rows(kinds: &[ColKind], nk: usize) -> Vec<Vec<V>> {
    let keys: Vec<V> = (0..nk).map(|i| key_value(kinds[i], i)).collect();
    let mut rows = vec![];
    // all-first-value, all-last-value(NULL), mixed
    let doms: Vec<Vec<V>> = kinds[nk..].iter().map(|k| domain(*k)).collect();
    for pick in 0..3usize {
        let mut r = keys.clone();
        for (i, d) in doms.iter().enumerate() {
            let idx = match pick {
                0 => 0,
                1 => d.len() - 1,
                _ => (i + 1) % d.len(),
            };
            r.push(d[idx].clone());
        }
        if !rows.iter().any(|x: &Vec<V>| row_eq(x, &r)) {
            rows.push(r);
        }
    }
    rows
}

pub fn max_len(thorough: bool) -> usize {
    if thorough { 3 } else { 2 }
}

/// number of cases = sum over schemas of rows x chains
pub fn n_cases(thorough: bool) -> u64 {
    let mut n = 0u64;
    for (nk, kinds) in schemas(thorough) {
        let rows = initial_rows(&kinds, nk).len() as u64;
        let steps = update_steps(&kinds, nk).len() as u64;
        let l = max_len(thorough);
        // chains of length 0..=L; beyond length 2 only a strided subset of the steps is used (see chain_of)
        let mut chains = 1u64;
        let mut pow = 1u64;
        for d in 1..=l {
            pow *= if d <= 2 { steps } else { steps.min(6) };
            chains += pow;
        }
        n += rows * chains;
    }
    n
}

/// decode case index -> (schema, row, chain of steps)
fn case_of(mut idx: u64, thorough: bool) -> Option<(usize, Vec<ColKind>, Vec<V>, Vec<Vec<(usize, V)>>)> {
    for (nk, kinds) in schemas(thorough) {
        let rows = initial_rows(&kinds, nk);
        let steps = update_steps(&kinds, nk);
        let l = max_len(thorough);
        let mut chains = 1u64;
        let mut pow = 1u64;
        let mut level_sizes = vec![1u64];
        for d in 1..=l {
            pow *= if d <= 2 { steps.len() as u64 } else { steps.len().min(6) as u64 };
            chains += pow;
            level_sizes.push(pow);
        }
        let total = rows.len() as u64 * chains;
        if idx >= total {
            idx -= total;
            continue;
        }
        let row = rows[(idx / chains) as usize].clone();
        let mut c = idx % chains;
        let mut len = 0;
        while c >= level_sizes[len] {
            c -= level_sizes[len];
            len += 1;
        }
        let mut chain = vec![];
        for d in 1..=len {
            let base = if d <= 2 { steps.len() as u64 } else { steps.len().min(6) as u64 };
            let pick = (c % base) as usize;
            c /= base;
            let step = if d <= 2 { steps[pick].clone() } else { steps[(pick * 7 + 3) % steps.len()].clone() };
            chain.push(step);
        }
        return Some((nk, kinds, row, chain));
    }
    None
}

// ---- second family: every column LAYOUT (alignment classes 1, 4, 8 bytes and variable length) x every NULL mask ----

const LAYOUT_KINDS: [ColKind; 4] = [ColKind::Bool, ColKind::Int, ColKind::BigInt, ColKind::Text];

fn layout_max_cols(thorough: bool) -> usize {
    if thorough { 5 } else { 4 }
}

fn layout_value(k: ColKind, alt: bool) -> V {
    match (k, alt) {
        (ColKind::Bool, false) => V::Bool(true),
        (ColKind::Bool, true) => V::Bool(false),
        (ColKind::Int, false) => V::Int(-7),
        (ColKind::Int, true) => V::Int(11),
        (ColKind::BigInt, false) => V::BigInt(9),
        (ColKind::BigInt, true) => V::BigInt(i64::MIN),
        (ColKind::Text, false) => V::Text("xyz".into()),
        (ColKind::Text, true) => V::Text("L".repeat(21)),
        (ColKind::Double, false) => V::Double(0.5),
        (ColKind::Double, true) => V::Double(-2.5),
    }
}

/// cases per schema of n value columns: 2^n NULL masks x (no update + for each column: set to NULL / set to another value)
fn layout_cases_for(n: usize) -> u64 {
    (1u64 << n) * (1 + 2 * n as u64)
}

pub fn n_layout_cases(thorough: bool) -> u64 {
    (1..=layout_max_cols(thorough)).map(|n| 4u64.pow(n as u32) * layout_cases_for(n)).sum()
}

fn layout_case_of(mut idx: u64, thorough: bool) -> Option<(usize, Vec<ColKind>, Vec<V>, Vec<Vec<(usize, V)>>)> {
    for n in 1..=layout_max_cols(thorough) {
        let per = layout_cases_for(n);
        let total = 4u64.pow(n as u32) * per;
        if idx >= total {
            idx -= total;
            continue;
        }
        let mut sc = idx / per;
        let mut c = idx % per;
        let mut kinds = vec![ColKind::BigInt];
        for _ in 0..n {
            kinds.push(LAYOUT_KINDS[(sc % 4) as usize]);
            sc /= 4;
        }
        let mask = c % (1 << n);
        c /= 1 << n;
        let mut row = vec![key_value(ColKind::BigInt, 0)];
        for i in 0..n {
            row.push(if mask >> i & 1 == 1 { V::Null } else { layout_value(kinds[1 + i], false) });
        }
        let chain = if c == 0 {
            vec![]
        } else {
            let col = ((c - 1) / 2) as usize;
            let v = if (c - 1) % 2 == 0 { V::Null } else { layout_value(kinds[1 + col], true) };
            vec![vec![(col, v)]]
        };
        return Some((1, kinds, row, chain));
    }
    None
}

fn show_v(v: &V) -> String {
    match v {
        V::Text(s) if s.len() > 8 => format!("Text({}B)", s.len()),
        other => format!("{other:?}"),
    }
}
fn show_row(r: &[V]) -> String {
    format!("[{}]", r.iter().map(show_v).collect::<Vec<_>>().join(","))
}

pub fn run_case(idx: u64, thorough: bool, quirk_creator_xmin: bool, bool_trigger: bool, rep: &mut ChunkReport, side: Option<&str>, layouts: bool) {
    let Some((nk, kinds, row, chain)) = (if layouts { layout_case_of(idx, thorough) } else { case_of(idx, thorough) }) else { return };
    let nvals = kinds.len() - nk;
    let desc = format!("schema {}key+{:?} row {} chain {}", nk, &kinds[nk..], show_row(&row), chain.iter().map(|s| format!("{{{}}}", s.iter().map(|(i, v)| format!("v{i}={}", show_v(v))).collect::<Vec<_>>().join(","))).collect::<Vec<_>>().join("->"));
    if let Some(p) = side {
        let _ = std::fs::write(p, &desc);
    }
    if rep.sample.is_empty() {
        rep.sample = desc.clone();
    }
    let has_bool_not_last = kinds.iter().enumerate().any(|(i, k)| *k == ColKind::Bool && i + 1 != kinds.len()) || (kinds.contains(&ColKind::Bool) && !chain.is_empty());
    let mut fail = |rep: &mut ChunkReport, m: String| {
        let tagged = if bool_trigger && has_bool_not_last && m.contains("PANIC") { format!("KT-bool-write ## {desc}: {m}") } else { format!("{desc}: {m}") };
        if rep.failures.len() < 6 {
            rep.failures.push(tagged);
        }
    };
    let env = TupleEnv::new(nk, &kinds);
    // participants: 0 = creator, 1..=L updaters, L+1 = deleter
    let k = 1 + chain.len();
    // model versions: values after each step
    let mut versions: Vec<Vec<V>> = vec![row.clone()];
    for step in &chain {
        let mut nv = versions.last().unwrap().clone();
        for (i, v) in step {
            nv[nk + i] = v.clone();
        }
        versions.push(nv);
    }
    // the stored bytes do not depend on who reads them, but transaction ids do depend on the assignment,
    // so the tuple is rebuilt for every assignment of states
    for with_delete in [false, true] {
        let parts = k + if with_delete { 1 } else { 0 };
        let n_assign = 5usize.pow(parts as u32);
        for code in 0..n_assign {
            let mut c = code;
            let mut st = vec![];
            for _ in 0..parts {
                st.push(STATES[c % 5]);
                c /= 5;
            }
            // at most one participant may be the reader itself... several may: a transaction can create, update and delete. keep all.
            let ids: Vec<u64> = st.iter().enumerate().map(|(j, s)| tx_id(j, *s)).collect();
            rep.evaluations += 1;
            let built = guard(|| env.build(&row, ids[0]));
            let mut bytes = match built {
                Ok(b) => b,
                Err(e) => {
                    fail(rep, format!("build failed: {e}"));
                    return;
                }
            };
            // identity of encode -> decode for the first version
            match guard(|| env.decode_last(&bytes)) {
                Ok(r) if row_eq(&r, &row) => {}
                Ok(r) => {
                    fail(rep, format!("decode(encode(row)) = {} differs from the row", show_row(&r)));
                    return;
                }
                Err(e) => {
                    fail(rep, format!("decode_last failed: {e}"));
                    return;
                }
            }
            let mut ok = true;
            for (j, step) in chain.iter().enumerate() {
                match guard(|| env.add_version(&bytes, step, ids[1 + j])) {
                    Ok(b) => bytes = b,
                    Err(e) => {
                        fail(rep, format!("add_version #{j} failed: {e}"));
                        ok = false;
                        break;
                    }
                }
                match guard(|| env.decode_last(&bytes)) {
                    Ok(r) if row_eq(&r, &versions[j + 1]) => {}
                    Ok(r) => {
                        fail(rep, format!("after update #{j} the last version decodes to {} instead of {}", show_row(&r), show_row(&versions[j + 1])));
                        ok = false;
                        break;
                    }
                    Err(e) => {
                        fail(rep, format!("decode_last after update #{j} failed: {e}"));
                        ok = false;
                        break;
                    }
                }
            }
            if !ok {
                return;
            }
            if with_delete {
                match guard(|| env.delete(&bytes, ids[k])) {
                    Ok(b) => bytes = b,
                    Err(e) => {
                        fail(rep, format!("delete failed: {e}"));
                        return;
                    }
                }
            }
            let snap = SnapSpec {
                xid: READER,
                xmin: ids.iter().zip(st.iter()).filter(|(_, s)| **s == St::Active).map(|(i, _)| *i).min().unwrap_or(READER),
                xmax: Some(READER - 1),
                active: ids.iter().zip(st.iter()).filter(|(_, s)| **s == St::Active).map(|(i, _)| *i).collect(),
                aborted: ids.iter().zip(st.iter()).filter(|(_, s)| **s == St::Aborted).map(|(i, _)| *i).collect(),
            };
            // expected by the property's rule
            let deleted_for_reader = with_delete && visible(st[k]);
            let strict: Option<&Vec<V>> = if deleted_for_reader { None } else { (0..k).rev().find(|j| visible(st[*j])).map(|j| &versions[j]) };
            // the listed quirk: every version carries the row creator's id
            let quirk: Option<&Vec<V>> = if deleted_for_reader { None } else if visible(st[0]) { versions.last() } else { None };
            let got = match guard(|| env.decode_for(&bytes, &snap)) {
                Ok(g) => g,
                Err(e) => {
                    fail(rep, format!("states {:?}{}: decode_for failed: {e}", &st[..k], if with_delete { format!(" deleter {:?}", st[k]) } else { String::new() }));
                    continue;
                }
            };
            let matches = |exp: Option<&Vec<V>>| match (&got, exp) {
                (None, None) => true,
                (Some(g), Some(e)) => row_eq(g, e),
                _ => false,
            };
            let is_nontrivial = k > 1 || with_delete;
            if is_nontrivial {
                rep.nontrivial += 1;
            }
            if !matches(strict) {
                if quirk_creator_xmin && matches(quirk) {
                    // exact explanation by the listed finding; reported once per chunk
                    if !rep.failures.iter().any(|f| f.starts_with("KF-version-xmin-is-creator")) && rep.failures.len() < 6 {
                        rep.failures.push(format!("KF-version-xmin-is-creator ## {desc}: creator/updaters {:?}: reader decodes {} but is entitled to {}", &st[..k], got.as_ref().map(|g| show_row(g)).unwrap_or("nothing".into()), strict.map(|g| show_row(g)).unwrap_or("nothing".into())));
                    }
                } else {
                    fail(rep, format!("creator/updaters {:?}{}: reader decodes {} but is entitled to {}", &st[..k], if with_delete { format!(" deleter {:?}", st[k]) } else { String::new() }, got.as_ref().map(|g| show_row(g)).unwrap_or("nothing".into()), strict.map(|g| show_row(g)).unwrap_or("nothing".into())));
                }
                continue;
            }
            // trimming history: for every horizon that this reader is "at or above", the answer must not change
            let mut horizons: Vec<u64> = ids.iter().flat_map(|i| [*i, *i + 1]).collect();
            horizons.sort();
            horizons.dedup();
            for h in horizons {
                // valid horizon for this reader: reader >= h and nobody below h is still active or not yet started
                if READER < h || ids.iter().zip(st.iter()).any(|(i, s)| *i < h && matches!(s, St::Active)) {
                    continue;
                }
                rep.evaluations += 1;
                let (vb, _freed) = match guard(|| env.vacuum(&bytes, h)) {
                    Ok(x) => x,
                    Err(e) => {
                        fail(rep, format!("vacuum(horizon {h}) failed: {e}"));
                        continue;
                    }
                };
                match guard(|| env.decode_for(&vb, &snap)) {
                    Ok(g2) => {
                        let same = match (&g2, &got) {
                            (None, None) => true,
                            (Some(a), Some(b)) => row_eq(a, b),
                            _ => false,
                        };
                        if !same {
                            fail(rep, format!("states {:?}: trimming history at horizon {h} changes what the reader decodes: {} -> {}", st, got.as_ref().map(|g| show_row(g)).unwrap_or("nothing".into()), g2.as_ref().map(|g| show_row(g)).unwrap_or("nothing".into())));
                        }
                    }
                    Err(e) => fail(rep, format!("decode_for after vacuum(horizon {h}) failed: {e}")),
                }
            }
        }
    }
    let _ = nvals;
}

pub fn worker(params: &Value, case: &Value) -> Value {
    let thorough = params["thorough"].as_bool().unwrap_or(false);
    let quirk = params["quirk_creator_xmin"].as_bool().unwrap_or(false);
    let bool_trigger = params["bool_trigger"].as_bool().unwrap_or(false);
    let c: Chunk = serde_json::from_value(case.clone()).expect("chunk");
    let mut rep = ChunkReport::default();
    for idx in c.start..c.end {
        run_case(idx, thorough, quirk, bool_trigger, &mut rep, if c.single && !c.side.is_empty() { Some(&c.side) } else { None }, c.group == "tuple-layouts");
    }
    serde_json::to_value(rep).unwrap()
}

pub fn params(thorough: bool, quirk: bool, bool_trigger: bool) -> Value {
    json!({"thorough": thorough, "quirk_creator_xmin": quirk, "bool_trigger": bool_trigger})
}
