//! `wal` engine (C17): operation sequences on the real WriteAheadLog (through the `verif` facade)
//! against a list model: what is read back must be exactly what was appended since the last
//! truncation and covered by a force.

use crate::explore::StepReport;
use crate::sqldrv::fresh_dir;
use axmosdb::verif::facade::{Wal, WalRec, WAL_BEGIN, WAL_COMMIT, WAL_INSERT, WAL_UPDATE};
use serde::{Deserialize, Serialize};
use serde_json::Value;
use std::collections::BTreeMap;

#[derive(Debug, Clone, PartialEq, Eq, Serialize, Deserialize)]
pub enum Size {
    /// no payload (record header only)
    Header,
    Small,     // 100 B redo
    Medium,    // ~10 000 B (4 fill a block)
    /// fills the current block exactly
    ExactFit,
    /// one alignment unit more than fits into the current block (must go to the next block)
    OneTooMany,
    /// the per-block maximum
    BlockMax,
    /// the per-block maximum carried entirely by the redo part / by the undo part (the longest single part a record can have)
    BlockMaxRedoOnly,
    BlockMaxUndoOnly,
    /// larger than any block accepts: must be rejected and change nothing
    TooLarge,
}

#[derive(Debug, Clone, PartialEq, Eq, Serialize, Deserialize)]
pub enum WOp {
    Append(Size),
    Force,
    /// clean close (drop, which forces) + open
    Reopen,
    /// process death (handle forgotten, nothing forced) + open
    CrashReopen,
    Truncate,
}

impl WOp {
    pub fn show(&self) -> String {
        match self {
            WOp::Append(s) => format!("append({s:?})"),
            WOp::Force => "force".into(),
            WOp::Reopen => "close+open".into(),
            WOp::CrashReopen => "crash+open".into(),
            WOp::Truncate => "truncate".into(),
        }
    }
}

#[derive(Debug, Clone, Serialize, Deserialize)]
pub struct WalParams {
    pub prefix: Vec<WOp>,
    pub alphabet: Vec<WOp>,
    /// trigger ids (known findings) that may be applied
    pub triggers: Vec<String>,
}

#[derive(Debug, Clone, PartialEq)]
struct MRec {
    tid: u64,
    kind: u8,
    undo: Vec<u8>,
    redo: Vec<u8>,
    total: usize,
}

struct Model {
    /// appended since the last truncation
    recs: Vec<MRec>,
    /// how many of them are covered by a force
    forced: usize,
    /// bytes used in the block being filled, its capacity, and how many blocks have been left behind
    fill: usize,
    cap: usize,
    blocks_left: usize,
    /// a force happened after the log had left block zero, and something was appended/forced after that
    forces_after_rotation: usize,
    next_fill_byte: u8,
    next_tid: u64,
}

const RECORD_ALIGN: usize = 8;

fn block_caps() -> (usize, usize) {
    // capacity of block zero is found by filling a scratch log with header-only records; the
    // capacity of the other blocks is the per-record maximum the log itself reports
    static CAPS: std::sync::OnceLock<(usize, usize)> = std::sync::OnceLock::new();
    *CAPS.get_or_init(|| {
        let d = fresh_dir("walprobe");
        let path = d.join("probe.log");
        let mut w = Wal::create(&path).expect("probe wal");
        let max = w.max_record_size();
        let bs = w.stats().block_size as u64;
        let unit = Wal::record_total_size(0, 0);
        let mut n = 0usize;
        loop {
            w.push(WAL_BEGIN, 1, &[], &[]).expect("probe push");
            n += 1;
            w.force().expect("probe force");
            // as soon as a record lives outside block zero the forced file is longer than one block
            if std::fs::metadata(&path).map(|m| m.len()).unwrap_or(0) > bs || n > 10_000 {
                break;
            }
        }
        w.close_without_flush();
        let _ = std::fs::remove_dir_all(&d);
        ((n - 1) * unit, max)
    })
}

impl Model {
    fn new() -> Model {
        let (c0, _) = block_caps();
        Model { recs: vec![], forced: 0, fill: 0, cap: c0, blocks_left: 0, forces_after_rotation: 0, next_fill_byte: 1, next_tid: 1 }
    }
    fn reset_blocks(&mut self) {
        let (c0, _) = block_caps();
        self.fill = 0;
        self.cap = c0;
        self.blocks_left = 0;
        self.forces_after_rotation = 0;
    }
    /// payload lengths (undo, redo) for a size class in the current state; None = class not applicable
    fn payload_for(&self, s: &Size) -> Option<(usize, usize)> {
        let hdr = Wal::record_total_size(0, 0);
        let (_, max) = block_caps();
        let split = |payload: usize| (payload / 3, payload - payload / 3);
        match s {
            Size::Header => Some((0, 0)),
            Size::Small => Some((0, 100)),
            Size::Medium => Some(split(10_000)),
            Size::BlockMax => Some(split(max - hdr)),
            Size::BlockMaxRedoOnly => Some((0, max - hdr)),
            Size::BlockMaxUndoOnly => Some((max - hdr, 0)),
            Size::TooLarge => Some(split(max - hdr + RECORD_ALIGN)),
            Size::ExactFit => {
                let room = self.cap.checked_sub(self.fill)?;
                if room < hdr + RECORD_ALIGN || room > max {
                    return None;
                }
                Some(split(room - hdr))
            }
            Size::OneTooMany => {
                let room = self.cap.checked_sub(self.fill)?;
                if room < hdr || room + RECORD_ALIGN > max {
                    return None;
                }
                Some(split(room + RECORD_ALIGN - hdr))
            }
        }
    }
    fn place(&mut self, total: usize) {
        let (_, max) = block_caps();
        if self.fill + total > self.cap {
            self.blocks_left += 1;
            self.fill = 0;
            self.cap = max;
        }
        self.fill += total;
    }
}

fn same(a: &MRec, b: &WalRec) -> bool {
    a.tid == b.tid && a.kind == b.kind && a.undo == b.undo && a.redo == b.redo
}

fn describe(r: &WalRec) -> String {
    format!("(lsn {} tid {} kind {} undo {}B redo {}B)", r.lsn, r.tid, r.kind, r.undo.len(), r.redo.len())
}

/// Compare what the log returns with the model. `crashed`: unforced records may be missing, but only as a suffix.
fn check_read(w: &mut Wal, m: &Model, crashed: bool) -> Result<usize, String> {
    let mut first: Option<Vec<WalRec>> = None;
    for ra in [1usize, 2, 4, 16] {
        let got = match w.read_all(ra) {
            Ok(g) => g,
            Err(e) => {
                // a log whose header block has never been written cannot be read; that is fine only if nothing is expected
                if m.forced == 0 && (crashed || m.recs.is_empty()) {
                    vec![]
                } else if m.recs.is_empty() {
                    vec![]
                } else {
                    return Err(format!("read_all(read_ahead={ra}) failed: {e}"));
                }
            }
        };
        let min = if crashed { m.forced } else { m.recs.len() };
        if got.len() < min || got.len() > m.recs.len() {
            return Err(format!(
                "read_all(read_ahead={ra}) returned {} records, expected {}{} (appended since truncation: {}, covered by a force: {}); tail: {}",
                got.len(),
                if crashed { "between " } else { "" },
                if crashed { format!("{} and {}", m.forced, m.recs.len()) } else { format!("{}", m.recs.len()) },
                m.recs.len(),
                m.forced,
                got.iter().rev().take(3).map(describe).collect::<Vec<_>>().join(" ")
            ));
        }
        for (i, (a, b)) in m.recs.iter().zip(got.iter()).enumerate() {
            if !same(a, b) {
                return Err(format!("read_all(read_ahead={ra}): record #{i} is {} but (tid {} kind {} undo {}B redo {}B) was appended", describe(b), a.tid, a.kind, a.undo.len(), a.redo.len()));
            }
        }
        for k in 1..got.len() {
            if got[k].lsn <= got[k - 1].lsn {
                return Err(format!("read_all(read_ahead={ra}): sequence numbers not strictly increasing at record #{k}: {} then {}", got[k - 1].lsn, got[k].lsn));
            }
        }
        if let Some(f) = &first {
            if f.len() != got.len() {
                return Err(format!("read-ahead {ra} returns {} records, read-ahead 1 returned {}", got.len(), f.len()));
            }
        } else {
            first = Some(got);
        }
    }
    Ok(first.map(|f| f.len()).unwrap_or(0))
}

pub fn run_once(p: &WalParams, hist: &[usize]) -> StepReport {
    let mut rep = StepReport::default();
    let dir = fresh_dir("wal");
    let path = dir.join("w.log");
    let mut w = match Wal::create(&path) {
        Ok(w) => Some(w),
        Err(e) => {
            rep.status = "machinery".into();
            rep.detail = e;
            return rep;
        }
    };
    let mut m = Model::new();
    let mut log: Vec<String> = vec![];
    let mut counters: BTreeMap<String, u64> = BTreeMap::new();
    let mut ops: Vec<&WOp> = p.prefix.iter().collect();
    let np = ops.len();
    for i in hist {
        ops.push(&p.alphabet[*i]);
    }
    let mut failure: Option<String> = None;
    let mut known: Option<String> = None;
    for (i, op) in ops.iter().enumerate() {
        let last = i + 1 == ops.len();
        let wal = w.as_mut().unwrap();
        let mut line = op.show();
        let mut verdict: Result<(), String> = Ok(());
        match op {
            WOp::Append(sz) => {
                let Some((ul, rl)) = m.payload_for(sz) else {
                    rep.status = if last && i >= np { "disabled".into() } else { "machinery".into() };
                    rep.detail = format!("size class {sz:?} not applicable here");
                    let _ = w.take().map(|x| x.close_without_flush());
                    let _ = std::fs::remove_dir_all(&dir);
                    return rep;
                };
                let b = m.next_fill_byte;
                m.next_fill_byte = m.next_fill_byte.wrapping_add(1).max(1);
                let undo = vec![b; ul];
                let redo = vec![b ^ 0x5a; rl];
                let kind = if ul > 0 { WAL_UPDATE } else if rl > 0 { WAL_INSERT } else if m.recs.len() % 2 == 0 { WAL_BEGIN } else { WAL_COMMIT };
                let tid = m.next_tid;
                m.next_tid += 1;
                let total = Wal::record_total_size(ul, rl);
                let r = wal.push(kind, tid, &undo, &redo);
                line = format!("{} [{}+{} B payload, total {total}] -> {:?}", op.show(), ul, rl, r.as_ref().map(|l| *l).map_err(|e| e.chars().take(60).collect::<String>()));
                if *sz == Size::TooLarge {
                    *counters.entry("oversize_appends".into()).or_insert(0) += 1;
                    if r.is_ok() {
                        verdict = Err("a record larger than any block was accepted".into());
                    }
                } else {
                    match r {
                        Ok(_) => {
                            m.recs.push(MRec { tid, kind, undo, redo, total });
                            let before = m.blocks_left;
                            m.place(total);
                            if m.blocks_left > before {
                                *counters.entry("block_rotations".into()).or_insert(0) += 1;
                            }
                        }
                        Err(e) => verdict = Err(format!("append of a record that fits a block failed: {e}")),
                    }
                }
            }
            WOp::Force => {
                let r = wal.force();
                if let Err(e) = r {
                    verdict = Err(format!("force failed: {e}"));
                } else {
                    m.forced = m.recs.len();
                    if m.blocks_left > 0 {
                        m.forces_after_rotation += 1;
                    }
                    *counters.entry("forces".into()).or_insert(0) += 1;
                    verdict = check_read(wal, &m, false).map(|_| ());
                }
            }
            WOp::Reopen => {
                let old = w.take().unwrap();
                old.close(); // Drop forces the log
                m.forced = m.recs.len();
                if m.blocks_left > 0 {
                    m.forces_after_rotation += 1;
                }
                *counters.entry("clean_reopens".into()).or_insert(0) += 1;
                match Wal::open(&path) {
                    Ok(nw) => {
                        w = Some(nw);
                        verdict = check_read(w.as_mut().unwrap(), &m, false).map(|_| ());
                        // appends after a reopen start a fresh block
                        m.fill = m.cap;
                    }
                    Err(e) => {
                        verdict = if m.recs.is_empty() && m.forced == 0 { Err(format!("open after clean close failed: {e}")) } else { Err(format!("open after clean close failed: {e}")) };
                        w = Wal::create(&dir.join("dummy.log")).ok();
                    }
                }
            }
            WOp::CrashReopen => {
                let old = w.take().unwrap();
                old.close_without_flush();
                *counters.entry("crash_reopens".into()).or_insert(0) += 1;
                match Wal::open(&path) {
                    Ok(nw) => {
                        w = Some(nw);
                        match check_read(w.as_mut().unwrap(), &m, true) {
                            Ok(n) => {
                                // whatever survived is the log from now on
                                m.recs.truncate(n);
                                m.forced = n;
                                m.fill = m.cap;
                            }
                            Err(e) => verdict = Err(e),
                        }
                    }
                    Err(e) => {
                        verdict = Err(format!("open after crash failed: {e}"));
                        w = Wal::create(&dir.join("dummy.log")).ok();
                    }
                }
            }
            WOp::Truncate => {
                if let Err(e) = wal.truncate() {
                    verdict = Err(format!("truncate failed: {e}"));
                } else {
                    m.recs.clear();
                    m.forced = 0;
                    m.reset_blocks();
                    *counters.entry("truncations".into()).or_insert(0) += 1;
                }
            }
        }
        log.push(line);
        if let Err(e) = verdict {
            // listed finding: everything beyond block zero combined with a second force / reopen
            let trig = p.triggers.iter().any(|t| t == "KT-log-beyond-block-zero");
            if trig && m.blocks_left > 0 {
                known = Some(format!("{}: {e}", op.show()));
            } else {
                failure = Some(format!("{}: {e}", op.show()));
            }
            break;
        }
    }
    if let Some(x) = w.take() {
        x.close_without_flush();
    }
    let _ = std::fs::remove_dir_all(&dir);
    rep.counters = counters;
    rep.key = format!(
        "recs={:?} forced={} fill={} cap={} left={}",
        m.recs.iter().map(|r| (r.kind, r.total)).collect::<Vec<_>>(),
        m.forced,
        m.fill,
        m.cap,
        m.blocks_left
    );
    rep.outcome = format!("{}:{}:{}", m.recs.len(), m.blocks_left, m.forced);
    if let Some(f) = failure {
        rep.status = "violation".into();
        rep.detail = format!("{f}\n{}", log.join("\n"));
        rep.stop = true;
    } else if let Some(k) = known {
        rep.status = "known".into();
        rep.findings = vec!["KT-log-beyond-block-zero".into()];
        rep.detail = format!("{k}\n{}", log.join("\n"));
        rep.stop = true;
    } else {
        rep.status = "ok".into();
    }
    rep
}

pub fn worker(params: &Value, case: &Value) -> Value {
    let p: WalParams = serde_json::from_value(params.clone()).expect("wal params");
    let hist: Vec<usize> = serde_json::from_value(case["hist"].clone()).expect("hist");
    let mut rep = run_once(&p, &hist);
    if rep.status == "violation" {
        let first_line = crate::explore::failure_signature;
        let mut n = 0;
        for _ in 0..2 {
            let r2 = run_once(&p, &hist);
            if r2.status == "violation" && first_line(&r2.detail) == first_line(&rep.detail) {
                n += 1;
            }
        }
        rep.reproduced = n;
    }
    serde_json::to_value(rep).unwrap()
}
