//! `crash` engine: runs a history through the public API under the I/O tap, then rebuilds the
//! on-disk image at EVERY prefix of the recorded file-mutation stream, opens it with
//! `Database::open` and compares what recovery produced with the reference model's committed
//! states. Optionally nests once more: every prefix of the recovery's own mutation stream.

use crate::engines::seq::{conforms, enabled, Exec, SeqParams, StepVerdict};
use crate::explore::StepReport;
use crate::model::*;
use crate::sqldrv::*;
use axmosdb::verif::iotap::{self, IoEvent};
use serde::{Deserialize, Serialize};
use serde_json::Value;
use std::collections::{BTreeMap, BTreeSet};
use std::io::{Seek, SeekFrom, Write};
use std::path::{Path, PathBuf};

#[derive(Debug, Clone, Serialize, Deserialize)]
pub struct CrashParams {
    pub seq: SeqParams,
    /// "C01" | "C02": contents of every image that opens must equal an allowed committed state;
    /// "C08": every image must open, stay equal over repeated opens and over interrupted recoveries
    pub mode: String,
    /// enumerate crash points inside the recovery of every first-level image
    pub nested: bool,
    /// trigger ids (known findings about crash points) that may be applied
    pub triggers: Vec<String>,
    /// do not judge the crash points of the final clean close while a session is open (the close rolls the session
    /// back in process, where an UPDATE is not undone - the listed in-place finding; crashes before the close are judged)
    #[serde(default)]
    pub skip_close_with_open_session: bool,
}

/// committed contents: table name -> sorted rows
pub type Contents = BTreeMap<String, Vec<Vec<Val>>>;

fn committed_contents(m: &Model) -> Contents {
    let mut mm = m.clone();
    let names = mm.committed_tables();
    let exps = mm.apply(&Op::Audit);
    let mut c = Contents::new();
    for (n, e) in names.into_iter().zip(exps.into_iter()) {
        if let Exp::Rows(r) = e {
            c.insert(n, r);
        }
    }
    c
}

fn basename(p: &str) -> String {
    Path::new(p).file_name().map(|s| s.to_string_lossy().into_owned()).unwrap_or_default()
}

pub fn is_mutation(e: &IoEvent) -> bool {
    matches!(e, IoEvent::Create { .. } | IoEvent::Write { .. } | IoEvent::Truncate { .. })
}

pub fn describe(e: &IoEvent) -> String {
    match e {
        IoEvent::Create { path } => format!("create {}", basename(path)),
        IoEvent::Open { path } => format!("open {}", basename(path)),
        IoEvent::Write { path, offset, data } => format!("write {} @{} +{}", basename(path), offset, data.len()),
        IoEvent::Truncate { path } => format!("truncate {}", basename(path)),
        IoEvent::Sync { path } => format!("sync {}", basename(path)),
        IoEvent::Mark { label } => format!("mark {label}"),
    }
}

/// Apply events to the files under `dir` (which may already contain an image).
pub fn apply_events(dir: &Path, evs: &[IoEvent]) -> std::io::Result<()> {
    let mut files: BTreeMap<String, std::fs::File> = BTreeMap::new();
    fn get<'a>(files: &'a mut BTreeMap<String, std::fs::File>, dir: &Path, name: &str, create: bool) -> std::io::Result<&'a mut std::fs::File> {
        if !files.contains_key(name) {
            let f = std::fs::OpenOptions::new().read(true).write(true).create(create).open(dir.join(name))?;
            files.insert(name.to_string(), f);
        }
        Ok(files.get_mut(name).unwrap())
    }
    for e in evs {
        match e {
            IoEvent::Create { path } => {
                let f = get(&mut files, dir, &basename(path), true)?;
                f.set_len(0)?;
            }
            IoEvent::Write { path, offset, data } => {
                let f = get(&mut files, dir, &basename(path), true)?;
                f.seek(SeekFrom::Start(*offset))?;
                f.write_all(data)?;
            }
            IoEvent::Truncate { path } => {
                let f = get(&mut files, dir, &basename(path), true)?;
                f.set_len(0)?;
            }
            _ => {}
        }
    }
    Ok(())
}

fn copy_dir(from: &Path, to: &Path) -> std::io::Result<()> {
    std::fs::create_dir_all(to)?;
    for e in std::fs::read_dir(from)? {
        let e = e?;
        std::fs::copy(e.path(), to.join(e.file_name()))?;
    }
    Ok(())
}

/// Open an image and read every table in `names`. Err = open failed.
/// With `tap` the recovery's own I/O is recorded and returned.
fn open_and_read(dir: &Path, cfg: Cfg, names: &BTreeSet<String>, tap: bool) -> (Result<BTreeMap<String, Out>, String>, Vec<IoEvent>) {
    if tap {
        iotap::install();
    }
    let r = Db::open_in(dir.to_path_buf(), cfg);
    let mut evs = vec![];
    let res = match r {
        Err(e) => {
            if tap {
                evs = iotap::take().unwrap_or_default();
            }
            Err(e)
        }
        Ok(mut db) => {
            if tap {
                // recovery is over when open returns; what follows (reads, close) is not part of it
                evs = iotap::take().unwrap_or_default();
            }
            let mut m = BTreeMap::new();
            for n in names {
                let mut out = db.exec(&format!("SELECT * FROM {n}"));
                // every row the scan returns must also be found through `k = <its key>` (index path when
                // the table has a unique index on k); a disagreement replaces the table's answer
                if n == "t" {
                    if let Out::Rows(rows) = &out {
                        for r in rows.clone() {
                            if let Some(Val::Int(k)) = r.first() {
                                let look = db.exec(&format!("SELECT * FROM {n} WHERE k = {k}"));
                                let mut same_key: Vec<Vec<Val>> = rows.iter().filter(|x| x.first() == r.first()).cloned().collect();
                                same_key.sort();
                                let ok = matches!(&look, Out::Rows(l) if { let mut l = l.clone(); l.sort(); l == same_key });
                                if !ok {
                                    out = Out::Err(ErrClass::Internal, format!("lookup `WHERE k = {k}` answers {} but the scan returns {}", look.show(), Out::Rows(same_key).show()));
                                    break;
                                }
                            }
                        }
                    }
                }
                m.insert(n.clone(), out);
            }
            // keep the files: Db::drop would delete the directory
            db.close();
            let d = std::mem::replace(&mut db.dir, PathBuf::from("/nonexistent-verif-dir"));
            drop(db);
            let _ = d;
            Ok(m)
        }
    };
    (res, evs)
}

/// C08: the recovered database must keep working. Open it, create a table, insert into it and into
/// every readable recovered table that has the (k INT, v INT) shape, read back, close, reopen, read again.
fn probe_after_recovery(dir: &Path, cfg: Cfg, recovered: &BTreeMap<String, Out>) -> Option<String> {
    let keep = |mut db: Db| {
        db.close();
        let _ = std::mem::replace(&mut db.dir, PathBuf::from("/nonexistent-verif-dir"));
        drop(db);
    };
    let mut db = match Db::open_in(dir.to_path_buf(), cfg) {
        Ok(d) => d,
        Err(e) => return Some(format!("probe: open failed: {e}")),
    };
    let mut expect: Vec<(String, Out)> = vec![];
    let mut step = |db: &mut Db, sql: &str, want: Option<Out>| -> Option<String> {
        let o = db.exec(sql);
        match want {
            Some(w) if o != w => Some(format!("probe: `{sql}` answered {} (expected {})", o.show(), w.show())),
            None if o.is_err() => Some(format!("probe: `{sql}` failed: {}", o.show())),
            _ => None,
        }
    };
    let mut problem = step(&mut db, "CREATE TABLE zz_probe (k INT, v INT, UNIQUE(k))", Some(Out::Ddl));
    if problem.is_none() {
        problem = step(&mut db, "INSERT INTO zz_probe VALUES (1, 1)", Some(Out::Count(1)));
    }
    if problem.is_none() {
        let w = Out::Rows(vec![vec![Val::Int(1), Val::Int(1)]]);
        problem = step(&mut db, "SELECT * FROM zz_probe", Some(w.clone()));
        expect.push(("SELECT * FROM zz_probe".into(), w));
    }
    for (name, out) in recovered {
        if problem.is_some() {
            break;
        }
        let Out::Rows(rows) = out else { continue };
        // the shape of the probe row is taken from an existing row (an empty table tells nothing about its columns)
        let Some(model_row) = rows.first() else { continue };
        if model_row.len() != 2 || rows.iter().any(|r| r[0] == Val::Int(77)) || !matches!(model_row[0], Val::Int(_)) {
            continue;
        }
        let (second_sql, second_val) = match &model_row[1] {
            Val::Int(_) => ("770".to_string(), Val::Int(770)),
            Val::Text(_) => ("'probe'".to_string(), Val::Text("probe".into())),
            _ => continue,
        };
        problem = step(&mut db, &format!("INSERT INTO {name} VALUES (77, {second_sql})"), Some(Out::Count(1)));
        if problem.is_none() {
            let mut want = rows.clone();
            want.push(vec![Val::Int(77), second_val.clone()]);
            want.sort();
            let got = db.exec(&format!("SELECT * FROM {name}"));
            let ok = matches!(&got, Out::Rows(g) if { let mut g = g.clone(); g.sort(); g == want });
            if !ok {
                problem = Some(format!("probe: after INSERT INTO {name} VALUES (77, {second_sql}) the table reads {} (expected the recovered rows plus the new one)", got.show()));
            }
            expect.push((format!("SELECT * FROM {name}"), Out::Rows(want)));
        }
    }
    keep(db);
    if problem.is_some() {
        return problem;
    }
    // the probe's own commits must survive a clean close and reopen
    let mut db = match Db::open_in(dir.to_path_buf(), cfg) {
        Ok(d) => d,
        Err(e) => return Some(format!("probe: reopen after the probe workload failed: {e}")),
    };
    for (sql, want) in &expect {
        let got = db.exec(sql);
        let same = match (&got, want) {
            (Out::Rows(g), Out::Rows(w)) => {
                let (mut g, mut w) = (g.clone(), w.clone());
                g.sort();
                w.sort();
                g == w
            }
            _ => false,
        };
        if !same {
            problem = Some(format!("probe: after reopen `{sql}` answered {} (expected {})", got.show(), want.show()));
            break;
        }
    }
    keep(db);
    problem
}

fn contents_match(got: &BTreeMap<String, Out>, want: &Contents, all_names: &BTreeSet<String>) -> Result<(), String> {
    for n in all_names {
        let g = got.get(n);
        match (want.get(n), g) {
            (Some(rows), Some(out)) => {
                if !conforms(&Exp::Rows(rows.clone()), out) {
                    return Err(format!("table {n}: expected {}, recovered {}", Exp::Rows(rows.clone()).show(), out.show()));
                }
            }
            (None, Some(out)) => {
                // the table must not exist
                if !matches!(out, Out::Err(ErrClass::Bind, _) | Out::Err(ErrClass::NotFound, _)) {
                    return Err(format!("table {n} should not exist, recovered {}", out.show()));
                }
            }
            _ => {}
        }
    }
    Ok(())
}

struct Ack {
    start_ev: usize,
    ack_ev: usize,
    state: Contents,
}

pub fn run_once(p: &CrashParams, hist: &[usize]) -> StepReport {
    let mut rep = StepReport::default();
    let sp = &p.seq;
    let trig: BTreeSet<String> = p.triggers.iter().cloned().collect();
    iotap::install();
    let mut ex = match Exec::new(sp) {
        Ok(e) => e,
        Err(e) => {
            let _ = iotap::take();
            rep.status = "machinery".into();
            rep.detail = e;
            return rep;
        }
    };
    iotap::mark("created");
    let rcfg = sp.reopen_cfg.unwrap_or(sp.cfg);
    let mut acks: Vec<Ack> = vec![];
    let s0 = committed_contents(&ex.model);
    let mut all_ops: Vec<&Op> = sp.prefix.iter().collect();
    let n_prefix = all_ops.len();
    for oi in hist {
        all_ops.push(&sp.alphabet[*oi]);
    }
    let mut failed: Option<String> = None;
    let mut ckpt_taint = false;
    // (ack event of op i, checkpoint-time writers still undecided after op i)
    let mut op_acks: Vec<(usize, usize)> = vec![];
    for (i, op) in all_ops.iter().enumerate() {
        let last = i + 1 == all_ops.len();
        if !enabled(&ex.model, op) {
            let _ = iotap::take();
            rep.status = if last && i >= n_prefix { "disabled".into() } else { "machinery".into() };
            rep.detail = format!("op not enabled: {}", op.show());
            return rep;
        }
        let start_ev = iotap::len();
        iotap::mark(&format!("start:{i}"));
        let before = committed_contents(&ex.model);
        let verdict = ex.step(op, rcfg);
        let ack_ev = iotap::len();
        iotap::mark(&format!("ack:{i}"));
        if ex.model.tainted() {
            // a checkpoint with an open writer (listed finding): the history is not extended, but its crash points
            // are still enumerated so that the finding is re-observed (or not) on the real engine
            if last && ex.model.taint.len() == 1 && ex.model.taint[0] == KF_CHECKPOINT_OPEN_WRITER && matches!(verdict, StepVerdict::Ok) {
                ckpt_taint = true;
            } else {
                let _ = iotap::take();
                rep.findings = ex.model.taint.clone();
                rep.status = "tainted".into();
                rep.stop = true;
                rep.key = ex.model.key();
                return rep;
            }
        }
        if let StepVerdict::Diverged(d) = verdict {
            failed = Some(d);
            break;
        }
        let after = committed_contents(&ex.model);
        if after != before {
            acks.push(Ack { start_ev, ack_ev, state: after });
        }
        op_acks.push((ack_ev, ex.model.undecided_ckpt_writers()));
    }
    if let Some(d) = failed {
        // a live (pre-crash) divergence from the model is not this engine's business: the seq-based
        // checks judge it. The history is not usable for crash enumeration.
        let _ = iotap::take();
        rep.status = "tainted".into();
        rep.findings = vec!["live-divergence".into()];
        rep.detail = format!("live divergence (judged by the seq-based checks, not here): {d}");
        rep.stop = true;
        rep.key = ex.model.key();
        return rep;
    }
    // recovery depends on what the log holds since the last checkpoint, which the model does not track
    let mut since_ckpt: Vec<String> = vec![];
    for op in all_ops.iter() {
        match op {
            Op::Flush | Op::Vacuum | Op::Reopen => {
                since_ckpt.clear();
                since_ckpt.push("ckpt".into());
            }
            other => since_ckpt.push(other.show()),
        }
    }
    rep.key = format!("{} |since-checkpoint: {}", ex.model.key(), since_ckpt.join(";"));
    // the clean close that ends the workload rolls back every open session; if that fires a listed hazard
    // (an UPDATE that is not undone, ...) the crash points of this history cannot be judged. Its extensions can.
    {
        let mut m2 = ex.model.clone();
        let open: Vec<u8> = m2.sessions.keys().copied().collect();
        for s in open {
            m2.apply(&Op::DropSession(s));
        }
        if m2.tainted() && !ckpt_taint {
            let _ = iotap::take();
            rep.findings = m2.taint.clone();
            rep.status = "tainted".into();
            rep.stop = false;
            return rep;
        }
    }
    let model_final = ex.model.clone();
    let open_sessions = !ex.model.sessions.is_empty();
    // end of workload: "process death" is modelled by the prefixes; the clean close that follows only adds
    // further events (the final checkpoint), which are crash points too.
    iotap::mark("end-of-workload");
    ex.db.close();
    let cfg = sp.cfg;
    let live_dir = ex.db.dir.clone();
    let events = iotap::take().unwrap_or_default();
    drop(ex);
    let _ = live_dir;
    let created_at = events.iter().position(|e| matches!(e, IoEvent::Mark { label } if label == "created")).unwrap_or(0);
    let end_at = events.iter().position(|e| matches!(e, IoEvent::Mark { label } if label == "end-of-workload")).unwrap_or(events.len());

    // all table names that occur in any committed state
    let mut names: BTreeSet<String> = s0.keys().cloned().collect();
    for a in &acks {
        names.extend(a.state.keys().cloned());
    }
    for tb in &model_final.tables {
        names.insert(tb.defs[0].1.name.clone());
    }

    // crash points: after every mutation event following "created" (and the state right at "created")
    // Crash points inside earlier operations were enumerated when the parent history (same event
    // prefix, the engine being deterministic) was executed: only the last operation and the close are new.
    let last_op_start = if hist.is_empty() {
        created_at
    } else {
        let label = format!("start:{}", all_ops.len() - 1);
        events.iter().position(|e| matches!(e, IoEvent::Mark { label: l } if *l == label)).unwrap_or(created_at)
    };
    let mut points: Vec<usize> = vec![last_op_start];
    for (i, e) in events.iter().enumerate() {
        if i > last_op_start && is_mutation(e) {
            points.push(i + 1);
        }
    }
    // the instant right after the last operation was acknowledged is a crash point of its own even when the operation
    // wrote nothing (an acknowledgement that should have forced something and did not has no event to hang a point on)
    if !hist.is_empty() {
        let label = format!("ack:{}", all_ops.len() - 1);
        if let Some(k) = events.iter().position(|e| matches!(e, IoEvent::Mark { label: l } if *l == label)) {
            if !points.contains(&(k + 1)) {
                points.push(k + 1);
                points.sort();
            }
        }
    }
    if p.skip_close_with_open_session && open_sessions {
        points.retain(|&pt| pt <= end_at);
    }
    let mut n_points = 0u64;
    let mut n_opens = 0u64;
    let mut n_nested = 0u64;
    let mut n_probes = 0u64;
    let mut n_inflight = 0u64;
    let mut n_open_fail = 0u64;
    let mut problems: Vec<String> = vec![];
    let mut trig_hits: BTreeMap<String, u64> = BTreeMap::new();
    let mut known: BTreeSet<String> = BTreeSet::new();
    let windows = checkpoint_windows(&events);
    let has_big_row = all_ops.iter().any(|o| o.show_full().len() > 4000);
    for &pt in &points {
        n_points += 1;
        // allowed committed states at this point
        let n_acked = acks.iter().filter(|a| a.ack_ev < pt).count();
        let base = if n_acked == 0 { s0.clone() } else { acks[n_acked - 1].state.clone() };
        let mut allowed = vec![base];
        if let Some(a) = acks.get(n_acked) {
            if a.start_ev < pt {
                allowed.push(a.state.clone());
                n_inflight += 1;
            }
        }
        // triggers (known findings about where the crash falls)
        let mut active_triggers: Vec<String> = vec![];
        // listed finding: a checkpoint ran while a transaction with writes was open. It concerns crashes at which such a
        // writer is still undecided: before the acknowledgement of the operation that ended the last of them.
        {
            let n = op_acks.len();
            let und_after_last = op_acks.last().map(|x| x.1).unwrap_or(0);
            let und_before_last = if n >= 2 { op_acks[n - 2].1 } else { 0 };
            let last_ack = op_acks.last().map(|x| x.0).unwrap_or(0);
            let zone = if pt <= last_ack { und_before_last > 0 || und_after_last > 0 } else { und_after_last > 0 };
            if zone && sp.hazards.iter().any(|h| h == KF_CHECKPOINT_OPEN_WRITER) {
                active_triggers.push(KF_CHECKPOINT_OPEN_WRITER.to_string());
            }
        }
        for (name, lo, hi) in &windows {
            if pt > *lo && pt <= *hi && trig.contains(name) {
                active_triggers.push(name.clone());
            }
        }
        if pt > end_at && open_sessions && trig.contains("KT-close-with-open-session") {
            active_triggers.push("KT-close-with-open-session".into());
        }
        if trig.contains("KT-log-beyond-block-zero") && log_left_block_zero(&events[..pt]) {
            active_triggers.push("KT-log-beyond-block-zero".into());
        }
        if trig.contains("KT-torn-multi-page-writeback") && has_big_row && inside_writeback_run(&events, pt) {
            active_triggers.push("KT-torn-multi-page-writeback".into());
        }
        let img = fresh_dir("img");
        if let Err(e) = apply_events(&img, &events[..pt]) {
            problems.push(format!("machinery: cannot rebuild image at point {pt}: {e}"));
            continue;
        }
        let (res, rec_events) = open_and_read(&img, cfg, &names, p.nested);
        n_opens += 1;
        let where_ = format!(
            "crash point {pt}/{} (after `{}`; {} acknowledged commits before it{})",
            events.len(),
            if pt > 0 { describe(&events[pt - 1]) } else { "nothing".into() },
            n_acked,
            if allowed.len() > 1 { ", one commit in flight" } else { "" }
        );
        let mut point_problem: Option<String> = None;
        let mut recovered: Option<BTreeMap<String, Out>> = None;
        match res {
            Err(e) => {
                n_open_fail += 1;
                if p.mode == "C08" {
                    point_problem = Some(format!("{where_}: open failed: {e}"));
                }
            }
            Ok(got) => {
                if p.mode == "C01" || p.mode == "C02" {
                    let ok = allowed.iter().any(|s| contents_match(&got, s, &names).is_ok());
                    if !ok {
                        let why = contents_match(&got, &allowed[0], &names).unwrap_err();
                        point_problem = Some(format!("{where_}: recovered contents match no allowed committed state: {why}"));
                    }
                } else {
                    // C08: any table read must at least not fail internally
                    for (n, o) in &got {
                        if let Out::Err(c, m) = o {
                            if !matches!(c, ErrClass::Bind | ErrClass::NotFound) {
                                point_problem = Some(format!("{where_}: after recovery SELECT * FROM {n} fails: {m}"));
                            }
                        }
                    }
                }
                recovered = Some(got);
            }
        }
        // C08: repeated opens change nothing; interrupted recovery converges
        if p.mode == "C08" && point_problem.is_none() {
            if let Some(first) = &recovered {
                for cycle in 0..2 {
                    let (r2, _) = open_and_read(&img, cfg, &names, false);
                    n_opens += 1;
                    match r2 {
                        Err(e) => {
                            point_problem = Some(format!("{where_}: open #{} of the recovered database failed: {e}", cycle + 2));
                            break;
                        }
                        Ok(g2) => {
                            if &g2 != first {
                                point_problem = Some(format!("{where_}: contents changed on open #{}", cycle + 2));
                                break;
                            }
                        }
                    }
                }
                if p.nested && point_problem.is_none() {
                    // every prefix of the recovery's own mutation stream
                    let muts: Vec<usize> = rec_events.iter().enumerate().filter(|(_, e)| is_mutation(e)).map(|(i, _)| i + 1).collect();
                    let rec_trunc = rec_events.iter().position(|e| matches!(e, IoEvent::Truncate { path } if basename(path) == "axmos.log"));
                    for q in muts {
                        let img2 = fresh_dir("img2");
                        let ok = apply_events(&img2, &events[..pt]).and_then(|_| apply_events(&img2, &rec_events[..q]));
                        if ok.is_err() {
                            continue;
                        }
                        let (r3, _) = open_and_read(&img2, cfg, &names, false);
                        n_nested += 1;
                        match r3 {
                            Err(e) => {
                                point_problem = Some(format!("{where_}, then recovery interrupted after its event {q}/{} (`{}`): second open failed: {e}", rec_events.len(), describe(&rec_events[q - 1])));
                            }
                            Ok(g3) => {
                                if &g3 != first {
                                    point_problem = Some(format!("{where_}, then recovery interrupted after its event {q}/{} (`{}`): contents differ from the uninterrupted recovery", rec_events.len(), describe(&rec_events[q - 1])));
                                }
                            }
                        }
                        let _ = std::fs::remove_dir_all(&img2);
                        if point_problem.is_some() {
                            // recovery resets the log before what it rebuilt is on disk (listed finding)
                            if trig.contains("KT-recovery-resets-log-before-flushing") && rec_trunc.map(|t| q > t).unwrap_or(false) {
                                *trig_hits.entry("KT-recovery-resets-log-before-flushing".into()).or_insert(0) += 1;
                                known.insert("KT-recovery-resets-log-before-flushing".into());
                                if rep.detail.is_empty() {
                                    rep.detail = point_problem.clone().unwrap();
                                }
                                point_problem = None;
                                continue;
                            }
                            break;
                        }
                    }
                }
            }
        }
        if p.mode == "C08" && point_problem.is_none() {
            if let Some(first) = &recovered {
                n_probes += 1;
                if let Some(pb) = probe_after_recovery(&img, cfg, first) {
                    point_problem = Some(format!("{where_}: {pb}"));
                }
            }
        }
        let _ = std::fs::remove_dir_all(&img);
        if let Some(pp) = point_problem {
            if !active_triggers.is_empty() {
                for t in active_triggers {
                    *trig_hits.entry(t.clone()).or_insert(0) += 1;
                    known.insert(t);
                }
                if rep.detail.is_empty() {
                    rep.detail = pp;
                }
            } else {
                problems.push(pp);
            }
        }
    }
    rep.counters.insert("crash_points".into(), n_points);
    rep.counters.insert("images_opened".into(), n_opens);
    rep.counters.insert("nested_recovery_crash_points".into(), n_nested);
    rep.counters.insert("post_recovery_probe_workloads".into(), n_probes);
    rep.counters.insert("crash_points_with_commit_in_flight".into(), n_inflight);
    rep.counters.insert("images_that_failed_to_open".into(), n_open_fail);
    rep.counters.insert("acknowledged_commits".into(), acks.len() as u64);
    rep.counters.insert("io_events".into(), events.len() as u64);
    for (k, v) in trig_hits {
        rep.counters.insert(format!("trigger:{k}"), v);
    }
    rep.outcome = format!("{}:{}:{}", events.len(), n_open_fail, problems.len());
    if ckpt_taint {
        rep.findings = vec![KF_CHECKPOINT_OPEN_WRITER.to_string()];
        rep.stop = true;
        if problems.is_empty() {
            rep.status = "tainted".into();
        } else {
            rep.status = "known".into();
            rep.detail = problems[0].clone();
        }
        return rep;
    }
    if !problems.is_empty() {
        rep.status = "violation".into();
        let mut script: Vec<String> = vec![];
        for (i, e) in events.iter().enumerate() {
            if !matches!(e, IoEvent::Open { .. }) {
                script.push(format!("  [{}] {}", i + 1, describe(e)));
            }
        }
        rep.detail = format!("{}\n(+{} more failing crash points)\nI/O stream of the history:\n{}", problems[0], problems.len() - 1, script.join("\n"));
        rep.stop = false;
    } else if !known.is_empty() {
        rep.status = "known".into();
        rep.findings = known.into_iter().collect();
        // a history with a known-finding crash point is still a legitimate state to extend
        rep.stop = false;
    } else {
        rep.status = "ok".into();
    }
    rep
}

/// Windows of the event stream in which a crash is covered by a listed trigger.
/// Returns (trigger name, lo, hi): crash points pt with lo < pt <= hi.
fn checkpoint_windows(events: &[IoEvent]) -> Vec<(String, usize, usize)> {
    let mut out = vec![];
    for (k, e) in events.iter().enumerate() {
        if let IoEvent::Truncate { path } = e {
            if basename(path) == "axmos.log" {
                // start: the page-zero write of this checkpoint (last write at offset 0 of the data file before k)
                let mut j = None;
                for i in (0..k).rev() {
                    if let IoEvent::Write { path, offset, .. } = &events[i] {
                        if *offset == 0 && basename(path) != "axmos.log" {
                            j = Some(i);
                            break;
                        }
                    }
                }
                // end: the log header write that follows the truncation
                let mut m = None;
                for i in k + 1..events.len() {
                    if let IoEvent::Write { path, offset, .. } = &events[i] {
                        if *offset == 0 && basename(path) == "axmos.log" {
                            m = Some(i);
                            break;
                        }
                    }
                }
                if let Some(j) = j {
                    // crash points j+1 ..= k : page zero written, log not yet truncated
                    out.push(("KT-crash-after-header-before-log-reset".to_string(), j, k));
                }
                // crash point k+1 ..= m : log truncated to zero, fresh header not yet written
                let hi = m.unwrap_or(events.len());
                out.push(("KT-crash-with-empty-log-file".to_string(), k, hi));
            }
        }
    }
    out
}

pub fn worker(params: &Value, case: &Value) -> Value {
    let p: CrashParams = serde_json::from_value(params.clone()).expect("crash params");
    let hist: Vec<usize> = serde_json::from_value(case["hist"].clone()).expect("hist");
    let mut rep = run_once(&p, &hist);
    if rep.status == "violation" {
        let first_line = crate::explore::failure_signature;
        let mut n = 0;
        for _ in 0..2 {
            let r2 = run_once(&p, &hist);
            if r2.status == "violation" && first_line(&r2.detail) == first_line(&rep.detail) {
                n += 1;
            }
        }
        rep.reproduced = n;
    }
    serde_json::to_value(rep).unwrap()
}

/// Debug helper: print which byte ranges differ between consecutive writes to the log header block.
pub fn dump_log_diffs(events: &[IoEvent]) {
    let mut prev: Option<Vec<u8>> = None;
    for (i, e) in events.iter().enumerate() {
        if let IoEvent::Write { path, offset, data } = e {
            if basename(path) == "axmos.log" && *offset == 0 {
                if let Some(p) = &prev {
                    let mut ranges = vec![];
                    let mut j = 0;
                    while j < data.len().min(p.len()) {
                        if data[j] != p[j] {
                            let st = j;
                            while j < data.len().min(p.len()) && data[j] != p[j] {
                                j += 1;
                            }
                            ranges.push((st, j));
                        } else {
                            j += 1;
                        }
                    }
                    println!("[{}] log block0 diff vs previous: {:?}", i + 1, ranges.iter().take(12).collect::<Vec<_>>());
                }
                println!("[{}] header bytes 0..96: {:?}", i + 1, &data[..96]);
                prev = Some(data.clone());
            }
        }
    }
}


/// Has a log block other than block zero been written since the last truncation of the log?
fn log_left_block_zero(evs: &[IoEvent]) -> bool {
    let mut left = false;
    for e in evs {
        match e {
            IoEvent::Truncate { path } | IoEvent::Create { path } if basename(path) == "axmos.log" => left = false,
            IoEvent::Write { path, offset, .. } if basename(path) == "axmos.log" && *offset > 0 => left = true,
            _ => {}
        }
    }
    left
}

/// Is the crash point inside a run of data-file page writes (write-back of a checkpoint or an
/// eviction), i.e. after at least one page of the run and before the page-zero write that ends it?
fn inside_writeback_run(events: &[IoEvent], pt: usize) -> bool {
    let is_data_page = |e: &IoEvent| matches!(e, IoEvent::Write { path, offset, .. } if basename(path) != "axmos.log" && *offset > 0);
    if pt == 0 || pt > events.len() || !is_data_page(&events[pt - 1]) {
        return false;
    }
    // the next mutation decides: another data page or the page-zero write of the same checkpoint
    for e in &events[pt..] {
        if is_mutation(e) {
            return matches!(e, IoEvent::Write { path, .. } if basename(path) != "axmos.log");
        }
    }
    false
}
