//! `values` engine (C19): law-style checks over ALL pairs and triples of a boundary-value grid,
//! on the public DataType API and through SQL (ORDER BY, DISTINCT, =, IN, unique-index lookups).

use crate::sqldrv::{Cfg, Db, Out, Val};
use axmosdb::{Blob, DataType, DataTypeKind, Float32, Float64, Int32, Int64, UInt32, UInt64};
use serde::{Deserialize, Serialize};
use serde_json::{json, Value};
use std::cmp::Ordering;
use std::hash::{Hash, Hasher};

fn guard<T>(f: impl FnOnce() -> T) -> Result<T, String> {
    std::panic::catch_unwind(std::panic::AssertUnwindSafe(f)).map_err(|_| format!("PANIC: {}", crate::sqldrv::last_panic()))
}

pub fn texts() -> Vec<String> {
    let mut v: Vec<String> = ["", "a", "ab", "b", "é", "aaaaaaaa", "aaaaaaaaa", "aaaaaaaab", "zzzzzzzzz", "ééééé", "zazzzzzzzzzz", "zz", "aaaaaaaaé", "aaaaaaaaz"].iter().map(|s| s.to_string()).collect();
    v.push("q".repeat(300));
    v.push(format!("{}r", "q".repeat(300)));
    v.push("w".repeat(70_000));
    v
}

pub fn grid() -> Vec<DataType> {
    let mut g: Vec<DataType> = vec![DataType::Null];
    for b in [true, false] {
        g.push(DataType::Bool(axmosdb::types::bool::Bool(b)));
    }
    for v in [i32::MIN, i32::MIN + 1, -1, 0, 1, 16_777_216, 16_777_217, i32::MAX - 1, i32::MAX] {
        g.push(DataType::Int(Int32(v)));
    }
    for v in [i64::MIN, i64::MIN + 1, -(1i64 << 53) - 1, -1, 0, 1, 16_777_217, 1 << 31, (1 << 32) + 1, 1 << 53, (1 << 53) + 1, (1 << 53) + 2, i64::MAX - 1, i64::MAX] {
        g.push(DataType::BigInt(Int64(v)));
    }
    for v in [0u32, 1, 16_777_217, u32::MAX - 1, u32::MAX] {
        g.push(DataType::UInt(UInt32(v)));
    }
    for v in [0u64, 1, 1 << 53, (1 << 53) + 1, (1 << 63) - 1, 1 << 63, u64::MAX - 1, u64::MAX] {
        g.push(DataType::BigUInt(UInt64(v)));
    }
    for v in [0.0f32, -0.0, 1.5, -1.5, 16_777_216.0, f32::MIN_POSITIVE, f32::MAX, f32::INFINITY, f32::NEG_INFINITY, f32::NAN] {
        g.push(DataType::Float(Float32(v)));
    }
    for v in [0.0f64, -0.0, 1.5, -1.5, 9007199254740992.0, 9007199254740994.0, f64::from_bits(1), -f64::from_bits(1), f64::MAX, f64::MIN, f64::INFINITY, f64::NEG_INFINITY, f64::NAN, 4294967296.5] {
        g.push(DataType::Double(Float64(v)));
    }
    for t in texts() {
        g.push(DataType::Blob(Blob::from(t.as_str())));
    }
    g
}

/// exact mathematical view of a numeric value
#[derive(Clone, Copy, Debug)]
pub enum Num {
    I(i128),
    F(f64),
}

pub fn num_of(d: &DataType) -> Option<Num> {
    Some(match d {
        DataType::Int(v) => Num::I(v.0 as i128),
        DataType::BigInt(v) => Num::I(v.0 as i128),
        DataType::UInt(v) => Num::I(v.0 as i128),
        DataType::BigUInt(v) => Num::I(v.0 as i128),
        DataType::Float(v) => Num::F(v.0 as f64),
        DataType::Double(v) => Num::F(v.0),
        _ => return None,
    })
}

fn cmp_i_f(i: i128, f: f64) -> Option<Ordering> {
    if f.is_nan() {
        return None;
    }
    if f >= 1.7e38 {
        return Some(Ordering::Less);
    }
    if f <= -1.7e38 {
        return Some(Ordering::Greater);
    }
    let t = f.trunc();
    let ti = t as i128;
    Some(match i.cmp(&ti) {
        Ordering::Equal => {
            let frac = f - t;
            if frac > 0.0 { Ordering::Less } else if frac < 0.0 { Ordering::Greater } else { Ordering::Equal }
        }
        o => o,
    })
}

pub fn exact_cmp(a: Num, b: Num) -> Option<Ordering> {
    match (a, b) {
        (Num::I(x), Num::I(y)) => Some(x.cmp(&y)),
        (Num::F(x), Num::F(y)) => x.partial_cmp(&y),
        (Num::I(x), Num::F(y)) => cmp_i_f(x, y),
        (Num::F(x), Num::I(y)) => cmp_i_f(y, x).map(|o| o.reverse()),
    }
}

fn blob_bytes(d: &DataType) -> Option<Vec<u8>> {
    match d {
        DataType::Blob(b) => b.data().ok().map(|x| x.to_vec()),
        _ => None,
    }
}

fn h(d: &DataType) -> u64 {
    let mut s = std::collections::hash_map::DefaultHasher::new();
    d.hash(&mut s);
    s.finish()
}

pub fn show(d: &DataType) -> String {
    match d {
        DataType::Blob(b) => {
            let bytes = b.data().map(|x| x.to_vec()).unwrap_or_default();
            if bytes.len() > 16 { format!("Text({}B)", bytes.len()) } else { format!("Text({:?})", String::from_utf8_lossy(&bytes)) }
        }
        DataType::Double(v) => format!("Double({:?})", v.0),
        DataType::Float(v) => format!("Float({:?})", v.0),
        other => format!("{other:?}"),
    }
}

/// is the value one of the classes named by a listed finding
fn is_nan(d: &DataType) -> bool {
    matches!(num_of(d), Some(Num::F(f)) if f.is_nan())
}
fn is_zero_float(d: &DataType) -> bool {
    matches!(num_of(d), Some(Num::F(f)) if f == 0.0)
}
fn loses_precision_in_f64(d: &DataType) -> bool {
    match num_of(d) {
        Some(Num::I(i)) => (i as f64) as i128 != i || i.unsigned_abs() > (1u128 << 53),
        Some(Num::F(f)) => f.is_finite() && f.abs() >= 9007199254740992.0,
        None => false,
    }
}

#[derive(Debug, Clone, Serialize, Deserialize)]
pub struct Chunk {
    pub group: String,
    pub start: u64,
    pub end: u64,
    #[serde(default)]
    pub single: bool,
    #[serde(default)]
    pub side: String,
}

#[derive(Debug, Clone, Default, Serialize, Deserialize)]
pub struct ChunkReport {
    pub evaluations: u64,
    pub nontrivial: u64,
    pub failures: Vec<String>,
    pub sample: String,
}

fn tag(ids: &[&str], msg: String) -> String {
    if ids.is_empty() { msg } else { format!("{} ## {msg}", ids[0]) }
}

fn pair_laws(a: &DataType, b: &DataType, rep: &mut ChunkReport) {
    let mut fail = |rep: &mut ChunkReport, ids: Vec<&str>, m: String| {
        if rep.failures.len() < 8 {
            rep.failures.push(tag(&ids, m));
        }
    };
    rep.evaluations += 1;
    let nan = is_nan(a) || is_nan(b);
    let prec = loses_precision_in_f64(a) || loses_precision_in_f64(b);
    let eq_ab = guard(|| a == b);
    let eq_ba = guard(|| b == a);
    let (eq_ab, eq_ba) = match (eq_ab, eq_ba) {
        (Ok(x), Ok(y)) => (x, y),
        (e1, e2) => {
            fail(rep, vec![], format!("== panicked on {} / {}: {:?} {:?}", show(a), show(b), e1.err(), e2.err()));
            return;
        }
    };
    if eq_ab != eq_ba {
        fail(rep, vec![], format!("equality not symmetric: {} == {} is {eq_ab} but the reverse is {eq_ba}", show(a), show(b)));
    }
    if eq_ab {
        rep.nontrivial += 1;
        if h(a) != h(b) {
            let ids = if is_zero_float(a) || is_zero_float(b) { vec!["KF-neg-zero-hash"] } else { vec![] };
            fail(rep, ids, format!("{} == {} but their hashes differ", show(a), show(b)));
        }
    }
    let ord = match guard(|| a.partial_cmp(b)) {
        Ok(o) => o,
        Err(e) => {
            fail(rep, vec![], format!("partial_cmp panicked on {} / {}: {e}", show(a), show(b)));
            return;
        }
    };
    let rev = guard(|| b.partial_cmp(a)).unwrap_or(None);
    if ord.map(|o| o.reverse()) != rev {
        fail(rep, vec![], format!("ordering not antisymmetric: cmp({},{}) = {:?}, reverse = {:?}", show(a), show(b), ord, rev));
    }
    if (ord == Some(Ordering::Equal)) != eq_ab && !(a.is_null() || b.is_null()) {
        let ids = if nan { vec!["KF-nan-not-reflexive"] } else { vec![] };
        fail(rep, ids, format!("ordering and equality disagree on {} / {}: cmp = {:?}, == is {eq_ab}", show(a), show(b), ord));
    }
    // reference semantics
    match (num_of(a), num_of(b)) {
        (Some(x), Some(y)) => {
            rep.nontrivial += 1;
            let want = exact_cmp(x, y);
            if ord != want {
                let ids = if prec { vec!["KF-numeric-compare-via-f64"] } else if nan { vec!["KF-nan-not-reflexive"] } else { vec![] };
                fail(rep, ids, format!("numeric comparison disagrees with the mathematical value: cmp({}, {}) = {:?}, exact = {:?}", show(a), show(b), ord, want));
            }
            let want_eq = want == Some(Ordering::Equal);
            if eq_ab != want_eq {
                let ids = if prec { vec!["KF-numeric-compare-via-f64"] } else if nan { vec!["KF-nan-not-reflexive"] } else { vec![] };
                fail(rep, ids, format!("numeric equality disagrees with the mathematical value: {} == {} is {eq_ab}", show(a), show(b)));
            }
        }
        _ => {}
    }
    // arithmetic with promotion: when a floating-point operand is involved the result must be the IEEE result
    // of the two operands converted to f64 (operand ORDER matters for - / %); for two integers whose exact
    // result is small it must be that exact integer
    if let (Some(x), Some(y)) = (num_of(a), num_of(b)) {
        let f = |n: Num| match n {
            Num::I(i) => i as f64,
            Num::F(v) => v,
        };
        let involves_float = matches!(x, Num::F(_)) || matches!(y, Num::F(_));
        type Op = (&'static str, fn(&DataType, &DataType) -> Result<DataType, String>, fn(f64, f64) -> f64, fn(i128, i128) -> Option<i128>);
        let ops: [Op; 5] = [
            ("+", |p, q| p.add(q).map_err(|e| e.to_string()), |p, q| p + q, |p, q| p.checked_add(q)),
            ("-", |p, q| p.sub(q).map_err(|e| e.to_string()), |p, q| p - q, |p, q| p.checked_sub(q)),
            ("*", |p, q| p.mul(q).map_err(|e| e.to_string()), |p, q| p * q, |p, q| p.checked_mul(q)),
            ("/", |p, q| p.div(q).map_err(|e| e.to_string()), |p, q| p / q, |p, q| if q == 0 { None } else { p.checked_div(q) }),
            ("%", |p, q| p.rem(q).map_err(|e| e.to_string()), |p, q| p % q, |p, q| if q == 0 { None } else { p.checked_rem(q) }),
        ];
        for (sym, engine_op, fop, iop) in ops {
            let got = match guard(|| engine_op(a, b)) {
                Ok(r) => r,
                Err(_) => continue, // panics of arithmetic are C16's business (overflow in debug builds)
            };
            let Ok(got) = got else { continue };
            let Some(g) = num_of(&got) else { continue };
            rep.nontrivial += 1;
            if involves_float {
                let want = fop(f(x), f(y));
                let gv = f(g);
                let same = (want.is_nan() && gv.is_nan()) || want == gv || (matches!(got, DataType::Float(_)) && (want as f32) == (gv as f32));
                if !same {
                    fail(rep, vec![], format!("arithmetic with promotion: {} {sym} {} = {} but the operands converted to f64 give {want}", show(a), show(b), show(&got)));
                }
            } else if let (Num::I(p), Num::I(q)) = (x, y) {
                if let Some(want) = iop(p, q) {
                    if want.unsigned_abs() < (1u128 << 31) {
                        let ok = match g {
                            Num::I(v) => v == want,
                            Num::F(v) => v == want as f64,
                        };
                        if !ok {
                            // listed finding: a BIGUINT above i64::MAX is reinterpreted as a negative i64 when the other operand is signed
                            let big_u = |d: &DataType| matches!(d, DataType::BigUInt(v) if v.0 > i64::MAX as u64);
                            let signed = |d: &DataType| matches!(d, DataType::Int(_) | DataType::BigInt(_));
                            let ids = if (big_u(a) && signed(b)) || (big_u(b) && signed(a)) { vec!["KF-biguint-above-i64-wraps-in-signed-arithmetic"] } else { vec![] };
                            fail(rep, ids, format!("integer arithmetic: {} {sym} {} = {} but the exact result is {want}", show(a), show(b), show(&got)));
                        }
                    }
                }
            }
        }
    }
    if let (Some(x), Some(y)) = (blob_bytes(a), blob_bytes(b)) {
        rep.nontrivial += 1;
        let want = x.cmp(&y);
        if ord != Some(want) {
            fail(rep, vec![], format!("text comparison is not byte-wise lexicographic: cmp({}, {}) = {:?}, expected {:?}", show(a), show(b), ord, want));
        }
        if eq_ab != (want == Ordering::Equal) {
            fail(rep, vec![], format!("text equality wrong for {} / {}", show(a), show(b)));
        }
    }
}

fn single_laws(a: &DataType, rep: &mut ChunkReport) {
    let mut fail = |rep: &mut ChunkReport, ids: Vec<&str>, m: String| {
        if rep.failures.len() < 8 {
            rep.failures.push(tag(&ids, m));
        }
    };
    rep.evaluations += 1;
    // reflexivity
    if !(a == a) {
        let ids = if is_nan(a) { vec!["KF-nan-not-reflexive"] } else { vec![] };
        fail(rep, ids, format!("equality not reflexive for {}", show(a)));
    }
    // store -> load
    if !a.is_null() {
        match guard(|| a.serialize()) {
            Ok(Ok(bytes)) => match guard(|| a.kind().deserialize(&bytes, 0).map(|(r, n)| (r.to_owned().unwrap_or(DataType::Null), n))) {
                Ok(Ok((back, n))) => {
                    let same = match (num_of(a), num_of(&back)) {
                        (Some(Num::F(x)), Some(Num::F(y))) => x.to_bits() == y.to_bits(),
                        (Some(Num::I(x)), Some(Num::I(y))) => x == y,
                        _ => blob_bytes(a) == blob_bytes(&back) && a.kind() == back.kind() && (blob_bytes(a).is_some() || *a == back),
                    };
                    if !same || n != bytes.len() {
                        fail(rep, vec![], format!("serialize -> deserialize is not the identity for {}: got {} ({} of {} bytes consumed)", show(a), show(&back), n, bytes.len()));
                    }
                }
                other => fail(rep, vec![], format!("deserialize of the serialization of {} failed: {:?}", show(a), other.map(|r| r.map(|_| ()).map_err(|e| e.to_string())))),
            },
            other => fail(rep, vec![], format!("serialize of {} failed: {:?}", show(a), other.map(|r| r.map(|_| ()).map_err(|e| e.to_string())))),
        }
    }
    // cast to the same kind
    match guard(|| a.try_cast(a.kind())) {
        Ok(Ok(c)) => {
            let same = match (num_of(a), num_of(&c)) {
                (Some(Num::F(x)), Some(Num::F(y))) => x.to_bits() == y.to_bits(),
                (Some(Num::I(x)), Some(Num::I(y))) => x == y,
                _ => a.kind() == c.kind() && blob_bytes(a) == blob_bytes(&c),
            };
            if !same {
                fail(rep, vec![], format!("cast of {} to its own type gives {}", show(a), show(&c)));
            }
        }
        other => fail(rep, vec![], format!("cast of {} to its own type failed: {:?}", show(a), other.map(|r| r.map(|_| ()).map_err(|e| e.to_string())))),
    }
    // casts to every other numeric kind: if they succeed they must preserve the mathematical value
    if let Some(x) = num_of(a) {
        for k in [DataTypeKind::Int, DataTypeKind::BigInt, DataTypeKind::UInt, DataTypeKind::BigUInt, DataTypeKind::Double] {
            rep.evaluations += 1;
            if let Ok(Ok(c)) = guard(|| a.try_cast(k)) {
                if let Some(y) = num_of(&c) {
                    let keeps = exact_cmp(x, y) == Some(Ordering::Equal);
                    let to_float = matches!(y, Num::F(_));
                    let from_float = matches!(x, Num::F(_));
                    // integer -> float may round, float -> integer may truncate the fraction; anything else must be exact
                    if !keeps && !to_float && !from_float {
                        fail(rep, vec![], format!("cast of {} to {:?} succeeded with a different value {}", show(a), k, show(&c)));
                    }
                    if !keeps && from_float && !to_float {
                        // truncation towards zero is acceptable, wrapping is not
                        if let (Num::F(f), Num::I(i)) = (x, y) {
                            if f.is_nan() || (f.trunc() - i as f64).abs() > 1.0 {
                                fail(rep, vec![], format!("cast of {} to {:?} succeeded with an unrelated value {}", show(a), k, show(&c)));
                            }
                        }
                    }
                }
            }
        }
    }
}

fn triple_laws(a: &DataType, b: &DataType, c: &DataType, rep: &mut ChunkReport) {
    rep.evaluations += 1;
    let nan = is_nan(a) || is_nan(b) || is_nan(c);
    let mut fail = |rep: &mut ChunkReport, m: String| {
        if rep.failures.len() < 8 {
            rep.failures.push(if nan { format!("KF-nan-not-reflexive ## {m}") } else { m });
        }
    };
    if a == b && b == c && !(a == c) {
        rep.nontrivial += 1;
        fail(rep, format!("equality not transitive: {} == {} == {} but first != last", show(a), show(b), show(c)));
    }
    let (ab, bc, ac) = (a.partial_cmp(b), b.partial_cmp(c), a.partial_cmp(c));
    if let (Some(x), Some(y)) = (ab, bc) {
        if x != Ordering::Greater && y != Ordering::Greater {
            rep.nontrivial += 1;
            let strict = x == Ordering::Less || y == Ordering::Less;
            let ok = match ac {
                Some(Ordering::Less) => true,
                Some(Ordering::Equal) => !strict,
                _ => false,
            };
            if !ok {
                fail(rep, format!("ordering not transitive: {} <= {} <= {} but cmp(first,last) = {:?}", show(a), show(b), show(c), ac));
            }
        }
    }
}

// ---------------------------------------------------------------------------------------------
// SQL level: one table per column type holding the grid values of that type

pub struct SqlType {
    pub name: &'static str,
    pub decl: &'static str,
    pub values: Vec<(String, DataType)>, // (SQL literal, value)
}

pub fn sql_types() -> Vec<SqlType> {
    let int = |v: i64| (format!("{v}"), DataType::BigInt(Int64(v)));
    vec![
        SqlType { name: "int", decl: "INT", values: [i32::MIN as i64 + 1, -1, 0, 1, 16_777_216, 16_777_217, i32::MAX as i64 - 1, i32::MAX as i64].iter().map(|v| (format!("{v}"), DataType::Int(Int32(*v as i32)))).collect() },
        SqlType { name: "bigint", decl: "BIGINT", values: [i64::MIN + 1, -(1i64 << 53) - 1, -1, 0, 1, (1 << 32) + 1, 1 << 53, (1 << 53) + 1, (1 << 53) + 2, i64::MAX - 1, i64::MAX].iter().map(|v| int(*v)).collect() },
        SqlType { name: "double", decl: "DOUBLE", values: [(-1.5f64, "-1.5"), (0.0, "0.0"), (1.5, "1.5"), (0.25, "0.25"), (4294967296.5, "4294967296.5"), (1e15, "1000000000000000.0")].iter().map(|(v, l)| (l.to_string(), DataType::Double(Float64(*v)))).collect() },
        SqlType { name: "text", decl: "TEXT", values: texts().into_iter().filter(|t| t.len() < 1000).map(|t| (format!("'{}'", t), DataType::Blob(Blob::from(t.as_str())))).collect() },
    ]
}

fn sql_val(d: &DataType) -> Val {
    crate::sqldrv::from_datatype(d)
}

fn ref_cmp(a: &DataType, b: &DataType) -> Ordering {
    match (num_of(a), num_of(b)) {
        (Some(x), Some(y)) => exact_cmp(x, y).unwrap_or(Ordering::Equal),
        _ => blob_bytes(a).cmp(&blob_bytes(b)),
    }
}

pub fn run_sql_type(idx: usize, rep: &mut ChunkReport) {
    let types = sql_types();
    let Some(t) = types.get(idx) else { return };
    rep.sample = format!("type {}: {} values: ORDER BY, DISTINCT, = and IN for every value, unique-index insert/duplicate/lookup", t.name, t.values.len());
    let mut fail = |rep: &mut ChunkReport, ids: Vec<&str>, m: String| {
        if rep.failures.len() < 10 {
            rep.failures.push(tag(&ids, format!("[sql {}] {m}", t.name)));
        }
    };
    let mut db = match Db::create("val", Cfg::default()) {
        Ok(d) => d,
        Err(e) => {
            fail(rep, vec![], format!("cannot create database: {e}"));
            return;
        }
    };
    let prec_type = t.values.iter().any(|(_, v)| loses_precision_in_f64(v));
    db.exec(&format!("CREATE TABLE s (id INT, v {})", t.decl));
    db.exec(&format!("CREATE TABLE u (id INT, v {}, UNIQUE(v))", t.decl));
    for (i, (lit, v)) in t.values.iter().enumerate() {
        rep.evaluations += 1;
        let o = db.exec(&format!("INSERT INTO s VALUES ({i}, {lit})"));
        if o != Out::Count(1) {
            fail(rep, vec![], format!("INSERT of {} into a plain table: {}", show(v), o.show()));
            return;
        }
        let o = db.exec(&format!("INSERT INTO u VALUES ({i}, {lit})"));
        if o != Out::Count(1) {
            let ids = if loses_precision_in_f64(v) { vec!["KF-numeric-compare-via-f64"] } else { vec![] };
            fail(rep, ids, format!("INSERT of the distinct value {} into a UNIQUE column was refused: {}", show(v), o.show()));
        }
    }
    // duplicates are rejected by the unique index
    for (i, (lit, v)) in t.values.iter().enumerate() {
        rep.evaluations += 1;
        rep.nontrivial += 1;
        let o = db.exec(&format!("INSERT INTO u VALUES ({}, {lit})", 1000 + i));
        if !matches!(o, Out::Err(crate::sqldrv::ErrClass::Unique, _)) {
            fail(rep, vec![], format!("second INSERT of {} into a UNIQUE column: {}", show(v), o.show()));
        }
    }
    // ORDER BY agrees with the reference order (ids of the rows in value order)
    let mut want: Vec<(usize, &DataType)> = t.values.iter().enumerate().map(|(i, (_, v))| (i, v)).collect();
    want.sort_by(|a, b| ref_cmp(a.1, b.1));
    rep.evaluations += 1;
    rep.nontrivial += 1;
    match db.exec("SELECT id, v FROM s ORDER BY v") {
        Out::Rows(rows) => {
            let got: Vec<i128> = rows.iter().map(|r| if let Val::Int(i) = r[0] { i } else { -1 }).collect();
            let exp: Vec<i128> = want.iter().map(|(i, _)| *i as i128).collect();
            if got != exp {
                let ids = if prec_type { vec!["KF-numeric-compare-via-f64"] } else { vec![] };
                fail(rep, ids, format!("ORDER BY v returns row ids {:?}, value order is {:?}", got, exp));
            }
        }
        o => fail(rep, vec![], format!("ORDER BY failed: {}", o.show())),
    }
    rep.evaluations += 1;
    match db.exec("SELECT DISTINCT v FROM s") {
        Out::Rows(rows) => {
            if rows.len() != t.values.len() {
                let ids = if prec_type { vec!["KF-numeric-compare-via-f64"] } else { vec![] };
                fail(rep, ids, format!("DISTINCT returns {} classes for {} distinct values", rows.len(), t.values.len()));
            }
        }
        o => fail(rep, vec![], format!("DISTINCT failed: {}", o.show())),
    }
    // point lookups: plain table (scan + compare) and unique table (index tree)
    for (i, (lit, v)) in t.values.iter().enumerate() {
        for table in ["s", "u"] {
            rep.evaluations += 1;
            rep.nontrivial += 1;
            match db.exec(&format!("SELECT id FROM {table} WHERE v = {lit}")) {
                Out::Rows(rows) => {
                    let got: Vec<i128> = rows.iter().map(|r| if let Val::Int(x) = r[0] { x } else { -1 }).collect();
                    if got != vec![i as i128] {
                        let ids = if loses_precision_in_f64(v) || (prec_type && got.len() > 1) { vec!["KF-numeric-compare-via-f64"] } else { vec![] };
                        fail(rep, ids, format!("SELECT id FROM {table} WHERE v = {} returns ids {:?}, expected [{i}]", show(v), got));
                    }
                }
                o => fail(rep, vec![], format!("lookup of {} in {table} failed: {}", show(v), o.show())),
            }
        }
        // range: everything strictly below this value
        rep.evaluations += 1;
        match db.exec(&format!("SELECT id FROM s WHERE v < {lit}")) {
            Out::Rows(rows) => {
                let mut got: Vec<i128> = rows.iter().map(|r| if let Val::Int(x) = r[0] { x } else { -1 }).collect();
                got.sort();
                let mut exp: Vec<i128> = t.values.iter().enumerate().filter(|(_, (_, w))| ref_cmp(w, v) == Ordering::Less).map(|(j, _)| j as i128).collect();
                exp.sort();
                if got != exp {
                    let ids = if prec_type { vec!["KF-numeric-compare-via-f64"] } else { vec![] };
                    fail(rep, ids, format!("WHERE v < {} returns ids {:?}, expected {:?}", show(v), got, exp));
                }
            }
            o => fail(rep, vec![], format!("range query below {} failed: {}", show(v), o.show())),
        }
    }
    let _ = sql_val;
}


// ------------------------------------------------------------------------------------------------
// composite index keys: every ordered pair / triple of column types

/// (declaration, three distinct literals that every numeric path represents exactly)
pub fn key_types() -> Vec<(&'static str, Vec<&'static str>)> {
    vec![
        ("INT", vec!["-3", "1", "7"]),
        ("BIGINT", vec!["-3", "1", "4294967303"]),
        ("UINT", vec!["0", "1", "7"]),
        ("BIGUINT", vec!["0", "1", "4294967303"]),
        ("FLOAT", vec!["-1.5", "0.25", "1.5"]),
        ("DOUBLE", vec!["-1.5", "0.25", "1.5"]),
        ("TEXT", vec!["'a'", "'ab'", "'b'"]),
        ("BOOLEAN", vec!["TRUE", "FALSE"]),
    ]
}

pub fn composite_len() -> u64 {
    let n = key_types().len() as u64;
    n * n + n * n * n
}

/// One case = one ordered tuple of key column types. The table has UNIQUE(k0, k1[, k2]); every combination of
/// the per-type literals is stored (in a scattered order), must then be found by the unique check (second insert
/// refused), must be found by a point query on all key columns, and a combination that was left out must be
/// accepted exactly once.
pub fn run_composite(idx: u64, rep: &mut ChunkReport) {
    let kt = key_types();
    let n = kt.len() as u64;
    let cols: Vec<usize> = if idx < n * n { vec![(idx / n) as usize, (idx % n) as usize] } else {
        let j = idx - n * n;
        vec![(j / (n * n)) as usize, ((j / n) % n) as usize, (j % n) as usize]
    };
    let decls: Vec<&str> = cols.iter().map(|c| kt[*c].0).collect();
    let name = decls.join(",");
    rep.sample = format!("UNIQUE key ({name})");
    let mut fail = |rep: &mut ChunkReport, m: String| {
        if rep.failures.len() < 10 {
            rep.failures.push(tag(&[], format!("[composite {name}] {m}")));
        }
    };
    let mut db = match Db::create("val", Cfg::default()) {
        Ok(d) => d,
        Err(e) => {
            fail(rep, format!("cannot create database: {e}"));
            return;
        }
    };
    let coldefs: Vec<String> = decls.iter().enumerate().map(|(i, d)| format!("k{i} {d}")).collect();
    let keynames: Vec<String> = (0..cols.len()).map(|i| format!("k{i}")).collect();
    let o = db.exec(&format!("CREATE TABLE c (id INT, {}, UNIQUE({}))", coldefs.join(", "), keynames.join(", ")));
    if !matches!(o, Out::Ddl) {
        fail(rep, format!("CREATE TABLE with the composite UNIQUE key: {}", o.show()));
        return;
    }
    // all combinations
    let mut combos: Vec<Vec<&str>> = vec![vec![]];
    for c in &cols {
        let mut next = vec![];
        for pre in &combos {
            for lit in &kt[*c].1 {
                let mut x = pre.clone();
                x.push(*lit);
                next.push(x);
            }
        }
        combos = next;
    }
    // scattered insertion order (stride coprime to the count), last combination in that order is held back
    let m = combos.len();
    let stride = [7usize, 5, 11, 13].into_iter().find(|s| m % s != 0).unwrap_or(1);
    let order: Vec<usize> = (0..m).map(|i| (i * stride + 3) % m).collect();
    let (held, stored) = order.split_last().unwrap();
    for i in stored {
        rep.evaluations += 1;
        let o = db.exec(&format!("INSERT INTO c VALUES ({i}, {})", combos[*i].join(", ")));
        if o != Out::Count(1) {
            fail(rep, format!("INSERT of the new key ({}) was not accepted: {}", combos[*i].join(", "), o.show()));
            return;
        }
    }
    for i in stored {
        rep.evaluations += 1;
        rep.nontrivial += 1;
        let o = db.exec(&format!("INSERT INTO c VALUES ({}, {})", 1000 + i, combos[*i].join(", ")));
        if !matches!(o, Out::Err(crate::sqldrv::ErrClass::Unique, _)) {
            fail(rep, format!("second INSERT of the stored key ({}): {} (a stored key must compare equal to itself on lookup)", combos[*i].join(", "), o.show()));
        }
    }
    for i in stored {
        rep.evaluations += 1;
        rep.nontrivial += 1;
        let cond: Vec<String> = combos[*i].iter().enumerate().map(|(j, l)| format!("k{j} = {l}")).collect();
        match db.exec(&format!("SELECT id FROM c WHERE {}", cond.join(" AND "))) {
            Out::Rows(rows) => {
                let got: Vec<i128> = rows.iter().map(|r| if let Val::Int(x) = r[0] { x } else { -1 }).collect();
                if got != vec![*i as i128] {
                    fail(rep, format!("point query for the stored key ({}) returns ids {:?}, expected [{i}]", combos[*i].join(", "), got));
                }
            }
            o => fail(rep, format!("point query for ({}) failed: {}", combos[*i].join(", "), o.show())),
        }
    }
    rep.evaluations += 2;
    let o = db.exec(&format!("INSERT INTO c VALUES ({held}, {})", combos[*held].join(", ")));
    if o != Out::Count(1) {
        fail(rep, format!("INSERT of the key ({}) that is not stored yet was refused: {}", combos[*held].join(", "), o.show()));
    }
    match db.exec("SELECT COUNT(*) FROM c") {
        Out::Rows(rows) if rows.len() == 1 && rows[0][0] == Val::Int(m as i128) => {}
        o => fail(rep, format!("table should hold {m} rows at the end: {}", o.show())),
    }
}

/// Text family for the comparator's chunking: every length 0..=26 (three 8-byte chunks and a tail), all 'm' except for
/// at most one position that holds 'a' (smaller), 'z' (greater) or a two-byte character.
pub fn text_family() -> Vec<String> {
    let mut v = vec![];
    for len in 0..=26usize {
        v.push("m".repeat(len));
        for pos in 0..len {
            for c in ["a", "z", "\u{e9}"] {
                let mut s = "m".repeat(pos);
                s.push_str(c);
                s.push_str(&"m".repeat(len - pos - 1));
                v.push(s);
            }
        }
    }
    v
}

fn text_pair_row(i: usize, rep: &mut ChunkReport) {
    let fam = text_family();
    let a = DataType::Blob(Blob::from(fam[i].as_str()));
    for t in &fam {
        let b = DataType::Blob(Blob::from(t.as_str()));
        rep.evaluations += 1;
        rep.nontrivial += 1;
        let want = fam[i].as_bytes().cmp(t.as_bytes());
        let got = guard(|| (a.partial_cmp(&b), a == b, h(&a) == h(&b)));
        match got {
            Ok((ord, eq, same_hash)) => {
                if ord != Some(want) && rep.failures.len() < 10 {
                    rep.failures.push(tag(&[], format!("text comparison is not byte-wise lexicographic: cmp({:?}, {:?}) = {:?}, expected {:?}", fam[i], t, ord, want)));
                }
                if eq != (want == Ordering::Equal) && rep.failures.len() < 10 {
                    rep.failures.push(tag(&[], format!("text equality wrong for {:?} / {:?}", fam[i], t)));
                }
                if eq && !same_hash && rep.failures.len() < 10 {
                    rep.failures.push(tag(&[], format!("equal texts hash differently: {:?}", fam[i])));
                }
            }
            Err(e) => {
                if rep.failures.len() < 10 {
                    rep.failures.push(tag(&[], format!("comparing {:?} with {:?}: {e}", fam[i], t)));
                }
            }
        }
    }
}

pub fn grid_len() -> u64 {
    grid().len() as u64
}

pub fn worker(_params: &Value, case: &Value) -> Value {
    let c: Chunk = serde_json::from_value(case.clone()).expect("chunk");
    let mut rep = ChunkReport::default();
    let g = grid();
    match c.group.as_str() {
        "singles" => {
            for i in c.start..c.end.min(g.len() as u64) {
                single_laws(&g[i as usize], &mut rep);
            }
            rep.sample = format!("{}", show(&g[(c.start as usize).min(g.len() - 1)]));
        }
        "pairs" => {
            for i in c.start..c.end.min(g.len() as u64) {
                for b in &g {
                    pair_laws(&g[i as usize], b, &mut rep);
                }
            }
            rep.sample = format!("({}, every grid value)", show(&g[(c.start as usize).min(g.len() - 1)]));
        }
        "triples" => {
            for i in c.start..c.end.min(g.len() as u64) {
                for b in &g {
                    for cc in &g {
                        triple_laws(&g[i as usize], b, cc, &mut rep);
                    }
                }
            }
            rep.sample = format!("({}, every pair of grid values)", show(&g[(c.start as usize).min(g.len() - 1)]));
        }
        "sql" => {
            for i in c.start..c.end {
                run_sql_type(i as usize, &mut rep);
            }
        }
        "text-pairs" => {
            let n = text_family().len() as u64;
            for i in c.start..c.end.min(n) {
                text_pair_row(i as usize, &mut rep);
            }
            rep.sample = format!("text #{} of the family against every text of the family", c.start);
        }
        "composite" => {
            for i in c.start..c.end.min(composite_len()) {
                run_composite(i, &mut rep);
            }
        }
        _ => {}
    }
    serde_json::to_value(rep).unwrap()
}

pub fn params() -> Value {
    json!({})
}
