//! `sqlenum` engine (C05): every query of a bounded grammar against fixed populations, each
//! answer compared with the reference evaluator (sqlmodel.rs) run on a mirror of the data.

use crate::sqldrv::{Cfg, Db, Out, Val};
use crate::sqlmodel::*;
use serde::{Deserialize, Serialize};
use serde_json::{json, Value};
use std::cmp::Ordering;
use std::collections::BTreeMap;

// -------------------------------------------------------------------------------- populations

pub fn t_rows() -> Vec<Vec<Val>> {
    let r = |k: i128, v: Option<i128>, s: Option<&str>| vec![Val::Int(k), v.map(Val::Int).unwrap_or(Val::Null), s.map(|x| Val::Text(x.into())).unwrap_or(Val::Null)];
    vec![r(1, Some(10), Some("a")), r(2, None, Some("ab")), r(3, Some(10), None), r(4, Some(-5), Some("")), r(5, Some(0), Some("b")), r(6, Some(1000000), Some("ab"))]
}
pub fn u_rows() -> Vec<Vec<Val>> {
    let r = |k: Option<i128>, w: Option<i128>| vec![k.map(Val::Int).unwrap_or(Val::Null), w.map(Val::Int).unwrap_or(Val::Null)];
    vec![r(Some(1), Some(100)), r(Some(3), Some(300)), r(Some(3), Some(301)), r(Some(7), None), r(None, Some(700))]
}
pub fn w_rows() -> Vec<Vec<Val>> {
    vec![vec![Val::Int(1), Val::Text("x".into())], vec![Val::Int(3), Val::Text("y".into())], vec![Val::Int(9), Val::Null]]
}

/// ORDER BY population: NULLs and duplicates in leading keys, insertion order unrelated to any key order
pub fn o_rows() -> Vec<Vec<Val>> {
    let r = |a: Option<i128>, b: Option<i128>, c: Option<&str>| vec![a.map(Val::Int).unwrap_or(Val::Null), b.map(Val::Int).unwrap_or(Val::Null), c.map(|x| Val::Text(x.into())).unwrap_or(Val::Null)];
    vec![r(None, Some(30), Some("x")), r(None, Some(10), Some("y")), r(Some(1), Some(5), Some("z")), r(None, Some(20), None), r(Some(1), Some(3), None), r(Some(2), None, Some("w")), r(Some(2), None, Some("a")), r(Some(1), Some(5), Some("b"))]
}

fn setup(db: &mut Db) -> Result<(), String> {
    let mut run = |sql: String| -> Result<(), String> {
        let o = db.exec(&sql);
        if o.is_err() { Err(format!("{sql}: {}", o.show())) } else { Ok(()) }
    };
    run("CREATE TABLE t (k INT, v INT, s TEXT)".into())?;
    run("CREATE TABLE u (k INT, w INT)".into())?;
    run("CREATE TABLE w (k INT, z TEXT)".into())?;
    run("CREATE TABLE o (a INT, b INT, c TEXT)".into())?;
    {
        // inserted one by one in this (unsorted) order: several NULLs and duplicates in every column
        for r in o_rows() {
            run(format!("INSERT INTO o VALUES ({})", r.iter().map(crate::model::lit).collect::<Vec<_>>().join(", ")))?;
        }
    }
    // one column per numeric type (typed-select group)
    run("CREATE TABLE m (id INT, i INT, b BIGINT, u UINT, q BIGUINT, f FLOAT, d DOUBLE)".into())?;
    for r in m_rows() {
        run(format!("INSERT INTO m VALUES ({})", r.iter().map(crate::model::lit).collect::<Vec<_>>().join(", ")))?;
    }
    for (name, rows) in [("t", t_rows()), ("u", u_rows()), ("w", w_rows())] {
        let body = rows.iter().map(|r| format!("({})", r.iter().map(crate::model::lit).collect::<Vec<_>>().join(", "))).collect::<Vec<_>>().join(", ");
        run(format!("INSERT INTO {name} VALUES {body}"))?;
    }
    Ok(())
}

// -------------------------------------------------------------------------------- atoms over t(k,v,s)

fn k() -> E {
    col("k", 0)
}
fn v() -> E {
    col("v", 1)
}
fn s() -> E {
    col("s", 2)
}

pub fn atoms() -> Vec<E> {
    use ArOp::*;
    use CmpOp::*;
    let mut a = vec![];
    for op in [Eq, Ne, Lt, Le, Gt, Ge] {
        a.push(cmp(v(), op, int(10)));
        a.push(cmp(k(), op, v()));
    }
    a.push(cmp(v(), Gt, int(0)));
    a.push(cmp(v(), Eq, null()));
    a.push(cmp(int(0), Lt, v()));
    for neg in [false, true] {
        a.push(E::IsNull(Box::new(v()), neg));
        a.push(E::IsNull(Box::new(s()), neg));
        a.push(E::Between(Box::new(v()), Box::new(int(0)), Box::new(int(10)), neg));
        a.push(E::Between(Box::new(k()), Box::new(int(2)), Box::new(v()), neg));
        a.push(E::In(Box::new(v()), vec![int(10), int(0)], neg));
        a.push(E::In(Box::new(v()), vec![int(10), null()], neg));
        a.push(E::In(Box::new(k()), vec![int(1), int(3), int(5)], neg));
        a.push(E::Like(Box::new(s()), "a%".into(), neg));
        a.push(E::Like(Box::new(s()), "_b".into(), neg));
        a.push(E::Like(Box::new(s()), "%".into(), neg));
    }
    a.push(cmp(s(), Eq, text("a")));
    a.push(cmp(s(), Lt, text("b")));
    a.push(cmp(s(), Ge, text("ab")));
    a.push(cmp(s(), Eq, text("")));
    a.push(cmp(ar(k(), Add, v()), Eq, int(11)));
    a.push(cmp(ar(v(), Sub, int(5)), Gt, int(0)));
    a.push(cmp(ar(k(), Mul, int(2)), Eq, v()));
    a.push(cmp(ar(k(), Add, ar(k(), Mul, int(2))), Eq, int(9)));
    a.push(cmp(ar(ar(k(), Add, int(1)), Mul, int(2)), Eq, int(8)));
    a.push(cmp(ar(k(), Sub, ar(int(4), Sub, int(1))), Eq, int(0)));
    a.push(cmp(ar(ar(k(), Sub, int(4)), Sub, int(1)), Eq, int(0)));
    a.push(cmp(E::Neg(Box::new(v())), Lt, int(0)));
    a.push(cmp(E::Neg(Box::new(ar(k(), Add, int(1)))), Eq, int(-3)));
    a.push(cmp(ar(E::Neg(Box::new(k())), Add, int(1)), Eq, int(-1)));
    a.push(E::Lit(Val::Bool(true)));
    a.push(E::Lit(Val::Bool(false)));
    // multiplicative chains with / and % : same precedence as *, left-associative; every grouping of three
    // operands in both association shapes (the right-nested ones are printed with their parentheses)
    for (o1, o2) in [(Div, Mul), (Mul, Div), (Div, Div), (Mod, Mul), (Div, Mod), (Mul, Mod)] {
        a.push(cmp(ar(ar(ar(k(), Mul, int(4)), o1, int(3)), o2, int(2)), Ge, int(4)));
        a.push(cmp(ar(ar(k(), Mul, int(4)), o1, ar(int(3), o2, int(2))), Ge, int(4)));
    }
    a.push(cmp(ar(k(), Sub, ar(int(6), Div, int(3))), Eq, int(1)));
    a.push(cmp(ar(ar(k(), Add, int(4)), Div, int(2)), Eq, int(3)));
    a.push(cmp(ar(int(12), Div, k()), Eq, int(3)));
    a.push(cmp(ar(k(), Div, ar(v(), Add, int(1))), Eq, int(0)));
    a.push(cmp(ar(E::Neg(Box::new(k())), Div, int(2)), Eq, int(-1)));
    a.push(cmp(ar(E::Neg(Box::new(k())), Mod, int(4)), Eq, int(-1)));
    a
}

/// the subset used for three-atom combinations
pub fn core_atoms() -> Vec<E> {
    let all = atoms();
    let pick = [0usize, 1, 4, 12, 15, 16, 19, 27, 35, 39, 43, 48];
    pick.iter().filter_map(|i| all.get(*i).cloned()).collect()
}

/// wider subset for the thorough tier: every second atom
pub fn wide_atoms() -> Vec<E> {
    atoms().into_iter().step_by(2).collect()
}

fn triple_shapes(a: E, b: E, c: E) -> Vec<E> {
    vec![
        or(a.clone(), and(b.clone(), c.clone())),
        or(and(a.clone(), b.clone()), c.clone()),
        and(or(a.clone(), b.clone()), c.clone()),
        and(a.clone(), or(b.clone(), c.clone())),
        and(not(a.clone()), b.clone()),
        or(not(a.clone()), and(b.clone(), c.clone())),
        not(and(a.clone(), b.clone())),
        not(or(a.clone(), and(b.clone(), not(c.clone())))),
        and(and(a.clone(), b.clone()), not(c.clone())),
        or(or(a, not(b)), c),
    ]
}

// -------------------------------------------------------------------------------- queries

#[derive(Debug, Clone)]
pub struct Query {
    pub sql: String,
    /// expected rows; `ordered` = compare as a sequence
    pub expect: Result<Vec<Vec<Val>>, String>,
    pub ordered: bool,
    /// tie groups for ORDER BY (rows inside one group may come in any order): lengths of consecutive groups
    pub tie_groups: Option<Vec<usize>>,
    pub tags: Vec<&'static str>,
}

fn where_query(e: &E) -> Query {
    let rows = t_rows();
    let mut out = vec![];
    let mut err = None;
    for r in &rows {
        match eval(e, r) {
            Ok(Val::Bool(true)) => out.push(r.clone()),
            Ok(_) => {}
            Err(x) => err = Some(x),
        }
    }
    Query { sql: format!("SELECT * FROM t WHERE {}", render(e)), expect: if let Some(x) = err { Err(x) } else { Ok(out) }, ordered: false, tie_groups: None, tags: vec![] }
}

fn sort_key_cmp(a: &Val, b: &Val, desc: bool) -> Ordering {
    // engine convention (documented in DESIGN appendix A.2): NULL sorts as the largest value
    let o = match (a, b) {
        (Val::Null, Val::Null) => Ordering::Equal,
        (Val::Null, _) => Ordering::Greater,
        (_, Val::Null) => Ordering::Less,
        _ => val_cmp(a, b).unwrap_or(Ordering::Equal),
    };
    if desc { o.reverse() } else { o }
}

fn agg(name: &str, vals: &[Val]) -> Val {
    let nn: Vec<&Val> = vals.iter().filter(|v| **v != Val::Null).collect();
    match name {
        "COUNT" => Val::Int(nn.len() as i128),
        "SUM" => {
            if nn.is_empty() {
                Val::Null
            } else if nn.iter().all(|v| matches!(v, Val::Int(_))) {
                Val::Int(nn.iter().map(|v| if let Val::Int(i) = v { *i } else { 0 }).sum())
            } else {
                Val::real(nn.iter().filter_map(|v| v.as_f64()).sum())
            }
        }
        "AVG" => {
            if nn.is_empty() { Val::Null } else { Val::real(nn.iter().filter_map(|v| v.as_f64()).sum::<f64>() / nn.len() as f64) }
        }
        "MIN" => nn.iter().min_by(|a, b| val_cmp(a, b).unwrap_or(Ordering::Equal)).map(|v| (*v).clone()).unwrap_or(Val::Null),
        "MAX" => nn.iter().max_by(|a, b| val_cmp(a, b).unwrap_or(Ordering::Equal)).map(|v| (*v).clone()).unwrap_or(Val::Null),
        _ => Val::Null,
    }
}

/// all queries of a group, in a fixed order
/// m(id INT, i INT, b BIGINT, u UINT, q BIGUINT, f FLOAT, d DOUBLE); the floats are exactly representable in f32
pub fn m_rows() -> Vec<Vec<Val>> {
    vec![
        vec![Val::Int(1), Val::Int(7), Val::Int(3), Val::Int(5), Val::Int(9), Val::real(0.5), Val::real(2.5)],
        vec![Val::Int(2), Val::Int(-3), Val::Int(-7), Val::Int(2), Val::Int(1), Val::real(-1.5), Val::real(0.25)],
        vec![Val::Int(3), Val::Int(0), Val::Int(4_000_000_000), Val::Int(4_000_000_000), Val::Int(10_000_000_000), Val::real(2.25), Val::real(1_000_000.5)],
    ]
}

/// `SELECT id, x op y FROM m` for every ordered pair of typed operands and every arithmetic operator. The result type the
/// binder infers becomes the type of the output column, so this is where a wrong promotion table shows (a DOUBLE result
/// truncated to BIGINT, an unsigned result read as signed, ...). Results that do not fit the promoted type (i64, or u64
/// when both operands are unsigned), integer division by zero and NaN are left to C16 (they must be errors, not panics).
fn typed_select_queries() -> Vec<Query> {
    // (sql text, column index in m or literal value, unsigned?)
    let ops: [(&str, Option<usize>, Option<Val>, bool); 9] = [
        ("i", Some(1), None, false),
        ("b", Some(2), None, false),
        ("u", Some(3), None, true),
        ("q", Some(4), None, true),
        ("f", Some(5), None, false),
        ("d", Some(6), None, false),
        ("2", None, Some(Val::Int(2)), false),
        ("0.5", None, Some(Val::real(0.5)), false),
        ("3000000000", None, Some(Val::Int(3_000_000_000)), false),
    ];
    let rows = m_rows();
    let mut out = vec![];
    for (xs, xi, xl, xu) in &ops {
        for (ys, yi, yl, yu) in &ops {
            for (op, sym) in [(ArOp::Add, "+"), (ArOp::Sub, "-"), (ArOp::Mul, "*"), (ArOp::Div, "/"), (ArOp::Mod, "%")] {
                let ex = match (xi, xl) {
                    (Some(i), _) => col(xs, *i),
                    (_, Some(v)) => E::Lit(v.clone()),
                    _ => unreachable!(),
                };
                let ey = match (yi, yl) {
                    (Some(i), _) => col(ys, *i),
                    (_, Some(v)) => E::Lit(v.clone()),
                    _ => unreachable!(),
                };
                let e = ar(ex, op, ey);
                let mut defined = true;
                let mut exp = vec![];
                for r in &rows {
                    // a zero divisor is an error in SQL whatever the types (the engine agrees for integer divisors of any
                    // dividend; a floating zero divisor yields infinity): left to C16
                    if matches!(op, ArOp::Div | ArOp::Mod) && matches!(eval(&ar(E::Lit(Val::Int(0)), ArOp::Add, match (yi, yl) { (Some(i), _) => col(ys, *i), (_, Some(v)) => E::Lit(v.clone()), _ => unreachable!() }), r), Ok(v) if v.as_f64() == Some(0.0)) {
                        defined = false;
                    }
                    match eval(&e, r) {
                        Ok(Val::Int(v)) => {
                            let fits = if *xu && *yu { v >= 0 && v <= u64::MAX as i128 } else { v >= i64::MIN as i128 && v <= i64::MAX as i128 };
                            if !fits {
                                defined = false;
                            }
                            exp.push(vec![r[0].clone(), Val::Int(v)]);
                        }
                        Ok(Val::Real(b)) => {
                            if f64::from_bits(b).is_nan() {
                                defined = false;
                            }
                            exp.push(vec![r[0].clone(), Val::Real(b)]);
                        }
                        _ => defined = false,
                    }
                }
                out.push(Query { sql: format!("SELECT id, {xs} {sym} {ys} FROM m"), expect: if defined { Ok(exp) } else { Err("left to C16".into()) }, ordered: false, tie_groups: None, tags: vec!["typed-select"] });
            }
        }
    }
    out
}

pub fn queries(group: &str) -> Vec<Query> {
    let mut q: Vec<Query> = vec![];
    match group {
        "typed-select" => q = typed_select_queries(),
        "where-atoms" => {
            for a in atoms() {
                q.push(where_query(&a));
                q.push(where_query(&not(a.clone())));
                q.push(where_query(&not(not(a))));
            }
        }
        "where-pairs" => {
            let at = atoms();
            for a in &at {
                for b in &at {
                    q.push(where_query(&and(a.clone(), b.clone())));
                    q.push(where_query(&or(a.clone(), b.clone())));
                }
            }
        }
        "where-triples" => {
            let at = core_atoms();
            for a in &at {
                for b in &at {
                    for c in &at {
                        for e in triple_shapes(a.clone(), b.clone(), c.clone()) {
                            q.push(where_query(&e));
                        }
                    }
                }
            }
        }
        "where-triples-wide" => {
            let at = wide_atoms();
            for a in &at {
                for b in &at {
                    for c in &at {
                        for e in triple_shapes(a.clone(), b.clone(), c.clone()) {
                            q.push(where_query(&e));
                        }
                    }
                }
            }
        }
        "select-list" => {
            use ArOp::*;
            let exprs: Vec<E> = vec![
                k(),
                v(),
                s(),
                ar(v(), Add, int(1)),
                ar(k(), Mul, int(2)),
                ar(ar(k(), Mul, int(2)), Sub, int(1)),
                ar(k(), Add, ar(v(), Mul, int(0))),
                E::Neg(Box::new(v())),
                ar(k(), Sub, E::Neg(Box::new(k()))),
                ar(ar(k(), Add, int(1)), Mul, ar(k(), Sub, int(1))),
                int(7),
                null(),
                ar(k(), Div, int(2)),
                ar(ar(k(), Mul, int(3)), Mod, int(4)),
                ar(ar(v(), Div, int(3)), Mul, int(3)),
            ];
            let rows = t_rows();
            // decimal literals: `2.0` and `2.5` are not integers (k / 2.0 is 0.5, 1.0, 1.5, ...)
            for (lit_, tag) in [(2.0f64, "decimal-literal-zero-fraction"), (2.5, "decimal-literal")] {
                for op in [Div, Mul, Add] {
                    let e = ar(k(), op, E::Lit(Val::real(lit_)));
                    let exp: Result<Vec<Vec<Val>>, String> = rows.iter().map(|r| Ok(vec![r[0].clone(), eval(&e, r)?])).collect();
                    q.push(Query { sql: format!("SELECT k, {} FROM t", render(&e)), expect: exp, ordered: false, tie_groups: None, tags: vec![tag] });
                }
            }
            // integer literals: each must denote exactly the integer written (in the select list and as a stored value)
            for lit_ in [0i128, 2147483647, 2147483648, -2147483648, 4294967296, 1 << 53, (1 << 53) + 1, (1 << 53) + 2, -((1 << 53) + 1), 1234567890123456789, 9223372036854775806, 9223372036854775807, -9223372036854775807] {
                let tag = if lit_.unsigned_abs() > (1u128 << 53) { "integer-literal-above-2^53" } else { "integer-literal" };
                q.push(Query { sql: format!("SELECT k, {lit_} FROM t WHERE k = 1"), expect: Ok(vec![vec![Val::Int(1), Val::Int(lit_)]]), ordered: false, tie_groups: None, tags: vec![tag] });
                q.push(Query { sql: format!("SELECT k FROM t WHERE k = 1 AND {lit_} = {lit_} AND NOT {lit_} = {}", lit_ - 1), expect: Ok(vec![vec![Val::Int(1)]]), ordered: false, tie_groups: None, tags: vec![tag] });
            }
            for a in &exprs {
                for b in &exprs {
                    let exp: Result<Vec<Vec<Val>>, String> = rows.iter().map(|r| Ok(vec![eval(a, r)?, eval(b, r)?])).collect();
                    q.push(Query { sql: format!("SELECT {}, {} FROM t", render(a), render(b)), expect: exp, ordered: false, tie_groups: None, tags: vec![] });
                    // with alias and a predicate
                    let p = cmp(k(), CmpOp::Le, int(3));
                    let exp2: Result<Vec<Vec<Val>>, String> = rows.iter().filter(|r| eval(&p, r) == Ok(Val::Bool(true))).map(|r| Ok(vec![eval(a, r)?, eval(b, r)?])).collect();
                    q.push(Query { sql: format!("SELECT {} AS x, {} AS y FROM t WHERE {}", render(a), render(b), render(&p)), expect: exp2, ordered: false, tie_groups: None, tags: vec![] });
                }
            }
        }
        "aggregates" => {
            let rows = t_rows();
            let preds: Vec<Option<E>> = vec![None, Some(cmp(k(), CmpOp::Le, int(3))), Some(cmp(v(), CmpOp::Gt, int(1000000))), Some(E::IsNull(Box::new(v()), false))];
            let cols: [(&str, usize); 3] = [("k", 0), ("v", 1), ("s", 2)];
            for p in &preds {
                let sel: Vec<&Vec<Val>> = rows.iter().filter(|r| p.as_ref().map(|e| eval(e, r) == Ok(Val::Bool(true))).unwrap_or(true)).collect();
                let wh = p.as_ref().map(|e| format!(" WHERE {}", render(e))).unwrap_or_default();
                // COUNT(*)
                q.push(Query { sql: format!("SELECT COUNT(*) FROM t{wh}"), expect: Ok(vec![vec![Val::Int(sel.len() as i128)]]), ordered: false, tie_groups: None, tags: vec!["agg"] });
                for (cn, ci) in cols {
                    let vals: Vec<Val> = sel.iter().map(|r| r[ci].clone()).collect();
                    for f in ["COUNT", "SUM", "AVG", "MIN", "MAX"] {
                        if ci == 2 && (f == "SUM" || f == "AVG") {
                            continue;
                        }
                        q.push(Query { sql: format!("SELECT {f}({cn}) FROM t{wh}"), expect: Ok(vec![vec![agg(f, &vals)]]), ordered: false, tie_groups: None, tags: vec!["agg"] });
                    }
                }
                // GROUP BY one column with two aggregates
                for (gn, gi) in [("v", 1usize), ("s", 2usize)] {
                    for (an, ai) in [("k", 0usize), ("v", 1usize)] {
                        for f in ["COUNT", "SUM", "MIN", "MAX"] {
                            let mut groups: Vec<(Val, Vec<Val>, usize)> = vec![];
                            for r in &sel {
                                if let Some(g) = groups.iter_mut().find(|g| g.0 == r[gi]) {
                                    g.1.push(r[ai].clone());
                                    g.2 += 1;
                                } else {
                                    groups.push((r[gi].clone(), vec![r[ai].clone()], 1));
                                }
                            }
                            let exp: Vec<Vec<Val>> = groups.iter().map(|g| vec![g.0.clone(), agg(f, &g.1), Val::Int(g.2 as i128)]).collect();
                            q.push(Query { sql: format!("SELECT {gn}, {f}({an}), COUNT(*) FROM t{wh} GROUP BY {gn}"), expect: Ok(exp), ordered: false, tie_groups: None, tags: vec!["agg", "group"] });
                        }
                    }
                }
            }
        }
        "order-limit-distinct" => {
            let rows = t_rows();
            let cols: [(&str, usize); 3] = [("k", 0), ("v", 1), ("s", 2)];
            // ORDER BY one key
            for (cn, ci) in cols {
                for desc in [false, true] {
                    let mut sorted = rows.clone();
                    sorted.sort_by(|a, b| sort_key_cmp(&a[ci], &b[ci], desc));
                    let mut groups = vec![];
                    let mut i = 0;
                    while i < sorted.len() {
                        let mut j = i + 1;
                        while j < sorted.len() && sort_key_cmp(&sorted[i][ci], &sorted[j][ci], desc) == Ordering::Equal {
                            j += 1;
                        }
                        groups.push(j - i);
                        i = j;
                    }
                    q.push(Query { sql: format!("SELECT * FROM t ORDER BY {cn}{}", if desc { " DESC" } else { "" }), expect: Ok(sorted.clone()), ordered: true, tie_groups: Some(groups), tags: vec!["order"] });
                    // two keys: (col, k) makes the order total
                    for desc2 in [false, true] {
                        let mut s2 = rows.clone();
                        s2.sort_by(|a, b| sort_key_cmp(&a[ci], &b[ci], desc).then(sort_key_cmp(&a[0], &b[0], desc2)));
                        q.push(Query { sql: format!("SELECT * FROM t ORDER BY {cn}{}, k{}", if desc { " DESC" } else { "" }, if desc2 { " DESC" } else { "" }), expect: Ok(s2.clone()), ordered: true, tie_groups: None, tags: vec!["order"] });
                        // LIMIT / OFFSET on a total order
                        for lim in [0usize, 1, 2, 6, 100] {
                            let e: Vec<Vec<Val>> = s2.iter().take(lim).cloned().collect();
                            q.push(Query { sql: format!("SELECT * FROM t ORDER BY {cn}{}, k{} LIMIT {lim}", if desc { " DESC" } else { "" }, if desc2 { " DESC" } else { "" }), expect: Ok(e), ordered: true, tie_groups: None, tags: vec!["order", "limit"] });
                            for off in [0usize, 1, 2, 5, 6, 7] {
                                let e: Vec<Vec<Val>> = s2.iter().skip(off).take(lim).cloned().collect();
                                q.push(Query { sql: format!("SELECT * FROM t ORDER BY {cn}{}, k{} LIMIT {lim} OFFSET {off}", if desc { " DESC" } else { "" }, if desc2 { " DESC" } else { "" }), expect: Ok(e), ordered: true, tie_groups: None, tags: vec!["order", "limit", "offset"] });
                            }
                        }
                    }
                }
            }
            // ORDER BY two and three keys over `o` (every ordered choice of distinct columns, every asc/desc mix);
            // rows that tie on all keys may come in any order, LIMIT/OFFSET only where the order is total
            {
                let orows = o_rows();
                let ocols: [(&str, usize); 3] = [("a", 0), ("b", 1), ("c", 2)];
                let mut keysets: Vec<Vec<(usize, bool)>> = vec![];
                for x in 0..3 {
                    for y in 0..3 {
                        if x == y {
                            continue;
                        }
                        for dx in [false, true] {
                            for dy in [false, true] {
                                keysets.push(vec![(x, dx), (y, dy)]);
                                let z = 3 - x - y;
                                for dz in [false, true] {
                                    keysets.push(vec![(x, dx), (y, dy), (z, dz)]);
                                }
                            }
                        }
                    }
                }
                for ks in keysets {
                    let cmp_rows = |a: &Vec<Val>, b: &Vec<Val>| ks.iter().fold(Ordering::Equal, |acc, (ci, d)| acc.then(sort_key_cmp(&a[*ci], &b[*ci], *d)));
                    let mut sorted = orows.clone();
                    sorted.sort_by(|a, b| cmp_rows(a, b));
                    let mut groups = vec![];
                    let mut i = 0;
                    while i < sorted.len() {
                        let mut j = i + 1;
                        while j < sorted.len() && cmp_rows(&sorted[i], &sorted[j]) == Ordering::Equal {
                            j += 1;
                        }
                        groups.push(j - i);
                        i = j;
                    }
                    let total = groups.iter().all(|g| *g == 1);
                    let by = ks.iter().map(|(ci, d)| format!("{}{}", ocols[*ci].0, if *d { " DESC" } else { "" })).collect::<Vec<_>>().join(", ");
                    q.push(Query { sql: format!("SELECT * FROM o ORDER BY {by}"), expect: Ok(sorted.clone()), ordered: true, tie_groups: Some(groups), tags: vec!["order", "multi-key"] });
                    if total {
                        for (lim, off) in [(1usize, 0usize), (2, 1), (3, 3), (8, 0), (2, 6)] {
                            let e: Vec<Vec<Val>> = sorted.iter().skip(off).take(lim).cloned().collect();
                            q.push(Query { sql: format!("SELECT * FROM o ORDER BY {by} LIMIT {lim} OFFSET {off}"), expect: Ok(e), ordered: true, tie_groups: None, tags: vec!["order", "multi-key", "limit"] });
                        }
                    }
                }
            }
            // DISTINCT on one and two columns
            for (cn, ci) in cols {
                let mut seen: Vec<Vec<Val>> = vec![];
                for r in &rows {
                    let x = vec![r[ci].clone()];
                    if !seen.contains(&x) {
                        seen.push(x);
                    }
                }
                q.push(Query { sql: format!("SELECT DISTINCT {cn} FROM t"), expect: Ok(seen), ordered: false, tie_groups: None, tags: vec!["distinct"] });
            }
            let mut seen: Vec<Vec<Val>> = vec![];
            for r in &rows {
                let x = vec![r[1].clone(), r[2].clone()];
                if !seen.contains(&x) {
                    seen.push(x);
                }
            }
            q.push(Query { sql: "SELECT DISTINCT v, s FROM t".into(), expect: Ok(seen), ordered: false, tie_groups: None, tags: vec!["distinct"] });
        }
        "joins" => {
            let (t, u, w) = (t_rows(), u_rows(), w_rows());
            let nullrow = |n: usize| vec![Val::Null; n];
            // ON conditions over the concatenated row t(0..3) ++ u(3..5)
            let ons: Vec<(&str, E)> = vec![
                ("t.k = u.k", cmp(col("t.k", 0), CmpOp::Eq, col("u.k", 3))),
                ("t.k < u.k", cmp(col("t.k", 0), CmpOp::Lt, col("u.k", 3))),
                ("t.v = u.w", cmp(col("t.v", 1), CmpOp::Eq, col("u.w", 4))),
                ("t.k = u.k AND u.w > 100", and(cmp(col("t.k", 0), CmpOp::Eq, col("u.k", 3)), cmp(col("u.w", 4), CmpOp::Gt, int(100)))),
            ];
            for (on_sql, on) in &ons {
                for jt in ["JOIN", "INNER JOIN", "LEFT JOIN", "RIGHT JOIN"] {
                    let mut out: Vec<Vec<Val>> = vec![];
                    let mut matched_u = vec![false; u.len()];
                    for tr in &t {
                        let mut m = false;
                        for (ui, ur) in u.iter().enumerate() {
                            let mut row = tr.clone();
                            row.extend(ur.clone());
                            if eval(on, &row) == Ok(Val::Bool(true)) {
                                m = true;
                                matched_u[ui] = true;
                                out.push(row);
                            }
                        }
                        if !m && jt == "LEFT JOIN" {
                            let mut row = tr.clone();
                            row.extend(nullrow(2));
                            out.push(row);
                        }
                    }
                    if jt == "RIGHT JOIN" {
                        for (ui, ur) in u.iter().enumerate() {
                            if !matched_u[ui] {
                                let mut row = nullrow(3);
                                row.extend(ur.clone());
                                out.push(row);
                            }
                        }
                    }
                    let tag: &'static str = match jt {
                        "LEFT JOIN" => "left-join",
                        "RIGHT JOIN" => "right-join",
                        _ => "inner-join",
                    };
                    q.push(Query { sql: format!("SELECT t.k, t.v, t.s, u.k, u.w FROM t {jt} u ON {on_sql}"), expect: Ok(out.clone()), ordered: false, tie_groups: None, tags: vec!["join", tag] });
                    // with WHERE clauses over the joined row: left-only, right-only, both sides, and conjunctions of them
                    let wheres: Vec<E> = vec![
                        cmp(col("t.k", 0), CmpOp::Le, int(3)),
                        cmp(col("u.w", 4), CmpOp::Gt, int(100)),
                        E::IsNull(Box::new(col("u.k", 3)), false),
                        cmp(col("u.w", 4), CmpOp::Gt, col("t.v", 1)),
                        and(cmp(col("t.v", 1), CmpOp::Eq, int(10)), cmp(col("u.w", 4), CmpOp::Gt, col("t.k", 0))),
                        and(cmp(col("t.k", 0), CmpOp::Le, int(4)), cmp(ar(col("u.k", 3), ArOp::Add, col("t.k", 0)), CmpOp::Gt, int(2))),
                        and(cmp(col("t.k", 0), CmpOp::Ge, int(2)), E::IsNull(Box::new(col("u.w", 4)), false)),
                        or(cmp(col("t.k", 0), CmpOp::Eq, int(1)), cmp(col("u.w", 4), CmpOp::Eq, int(301))),
                    ];
                    for wh in &wheres {
                        let wout: Vec<Vec<Val>> = out.iter().filter(|r| eval(wh, r) == Ok(Val::Bool(true))).cloned().collect();
                        q.push(Query { sql: format!("SELECT t.k, t.v, t.s, u.k, u.w FROM t {jt} u ON {on_sql} WHERE {}", render(wh)), expect: Ok(wout), ordered: false, tie_groups: None, tags: vec!["join", tag, "join-where"] });
                    }
                }
            }
            // cross join and comma join
            let mut cross = vec![];
            for tr in &t {
                for ur in &u {
                    let mut row = vec![tr[0].clone()];
                    row.push(ur[0].clone());
                    cross.push(row);
                }
            }
            q.push(Query { sql: "SELECT t.k, u.k FROM t CROSS JOIN u".into(), expect: Ok(cross.clone()), ordered: false, tie_groups: None, tags: vec!["join", "cross-join"] });
            let eqj: Vec<Vec<Val>> = cross.iter().filter(|r| r[0] != Val::Null && r[0] == r[1]).cloned().collect();
            q.push(Query { sql: "SELECT t.k, u.k FROM t, u WHERE t.k = u.k".into(), expect: Ok(eqj), ordered: false, tie_groups: None, tags: vec!["join", "comma-join"] });
            // three tables, every order of writing the inner joins
            let mut three = vec![];
            for tr in &t {
                for ur in &u {
                    for wr in &w {
                        if tr[0] != Val::Null && tr[0] == ur[0] && ur[0] == wr[0] {
                            three.push(vec![tr[0].clone(), ur[1].clone(), wr[1].clone()]);
                        }
                    }
                }
            }
            for sql in [
                "SELECT t.k, u.w, w.z FROM t JOIN u ON t.k = u.k JOIN w ON u.k = w.k",
                "SELECT t.k, u.w, w.z FROM u JOIN t ON t.k = u.k JOIN w ON u.k = w.k",
                "SELECT t.k, u.w, w.z FROM w JOIN u ON u.k = w.k JOIN t ON t.k = u.k",
                "SELECT t.k, u.w, w.z FROM t JOIN w ON t.k = w.k JOIN u ON u.k = w.k",
                "SELECT t.k, u.w, w.z FROM t, u, w WHERE t.k = u.k AND u.k = w.k",
            ] {
                q.push(Query { sql: sql.into(), expect: Ok(three.clone()), ordered: false, tie_groups: None, tags: vec!["join", "three-way"] });
            }
        }
        _ => {}
    }
    q
}

pub fn group_size(group: &str) -> u64 {
    match group {
        "dml" => dml_cases().len() as u64,
        g => queries(g).len() as u64,
    }
}

// -------------------------------------------------------------------------------- DML cases

pub struct DmlCase {
    pub sql: String,
    pub count: u64,
    pub after: Vec<Vec<Val>>,
}

pub fn dml_cases() -> Vec<DmlCase> {
    let mut c = vec![];
    let rows = t_rows();
    for a in atoms() {
        // DELETE WHERE atom
        let mut after = vec![];
        let mut n = 0u64;
        let mut ok = true;
        for r in &rows {
            match eval(&a, r) {
                Ok(Val::Bool(true)) => n += 1,
                Ok(_) => after.push(r.clone()),
                Err(_) => ok = false,
            }
        }
        if ok {
            c.push(DmlCase { sql: format!("DELETE FROM t WHERE {}", render(&a)), count: n, after });
        }
        // UPDATE SET v = 77 WHERE atom
        let mut after = vec![];
        let mut n = 0u64;
        for r in &rows {
            if eval(&a, r) == Ok(Val::Bool(true)) {
                n += 1;
                let mut x = r.clone();
                x[1] = Val::Int(77);
                after.push(x);
            } else {
                after.push(r.clone());
            }
        }
        if ok {
            c.push(DmlCase { sql: format!("UPDATE t SET v = 77 WHERE {}", render(&a)), count: n, after });
        }
    }
    // updates with expressions and several columns
    let mut after: Vec<Vec<Val>> = rows.clone();
    for r in after.iter_mut() {
        if let Val::Int(x) = r[1] {
            r[1] = Val::Int(x + 1);
        }
    }
    c.push(DmlCase { sql: "UPDATE t SET v = v + 1".into(), count: rows.len() as u64, after });
    let mut after: Vec<Vec<Val>> = rows.clone();
    for r in after.iter_mut() {
        if matches!(r[0], Val::Int(x) if x >= 4) {
            r[1] = Val::Null;
            r[2] = Val::Text("z".into());
        }
    }
    c.push(DmlCase { sql: "UPDATE t SET v = NULL, s = 'z' WHERE k >= 4".into(), count: 3, after });
    let mut after = rows.clone();
    after.push(vec![Val::Int(7), Val::Int(70), Val::Text("g".into())]);
    after.push(vec![Val::Int(8), Val::Null, Val::Null]);
    c.push(DmlCase { sql: "INSERT INTO t VALUES (7, 70, 'g'), (8, NULL, NULL)".into(), count: 2, after });
    c.push(DmlCase { sql: "DELETE FROM t".into(), count: rows.len() as u64, after: vec![] });
    c
}

// -------------------------------------------------------------------------------- comparison

fn rows_match(got: &[Vec<Val>], want: &[Vec<Val>], ordered: bool, ties: &Option<Vec<usize>>) -> bool {
    let veq = |a: &Vec<Val>, b: &Vec<Val>| a.len() == b.len() && a.iter().zip(b.iter()).all(|(x, y)| crate::model::val_eq(x, y));
    if got.len() != want.len() {
        return false;
    }
    if !ordered {
        let mut g: Vec<Vec<Val>> = got.to_vec();
        let mut w: Vec<Vec<Val>> = want.to_vec();
        let norm = |r: &mut Vec<Vec<Val>>| {
            for row in r.iter_mut() {
                for v in row.iter_mut() {
                    if let Val::Real(b) = v {
                        let f = f64::from_bits(*b);
                        if f.fract() == 0.0 && f.abs() < 1e15 {
                            *v = Val::Int(f as i128);
                        }
                    }
                }
            }
            r.sort();
        };
        norm(&mut g);
        norm(&mut w);
        return g.iter().zip(w.iter()).all(|(a, b)| veq(a, b));
    }
    match ties {
        None => got.iter().zip(want.iter()).all(|(a, b)| veq(a, b)),
        Some(groups) => {
            let mut i = 0;
            for n in groups {
                let mut g: Vec<Vec<Val>> = got[i..i + n].to_vec();
                let mut w: Vec<Vec<Val>> = want[i..i + n].to_vec();
                g.sort();
                w.sort();
                if !g.iter().zip(w.iter()).all(|(a, b)| veq(a, b)) {
                    return false;
                }
                i += n;
            }
            true
        }
    }
}

fn show_rows(r: &[Vec<Val>]) -> String {
    Out::Rows(r.to_vec()).show().chars().take(400).collect()
}

// -------------------------------------------------------------------------------- worker

#[derive(Debug, Clone, Serialize, Deserialize)]
pub struct Chunk {
    pub group: String,
    pub start: u64,
    pub end: u64,
    #[serde(default)]
    pub single: bool,
    #[serde(default)]
    pub side: String,
}

#[derive(Debug, Clone, Default, Serialize, Deserialize)]
pub struct ChunkReport {
    pub evaluations: u64,
    pub nontrivial: u64,
    pub failures: Vec<String>,
    pub sample: String,
}

thread_local! {
    static DB: std::cell::RefCell<Option<Db>> = const { std::cell::RefCell::new(None) };
}

fn with_db<T>(f: impl FnOnce(&mut Db) -> T) -> Result<T, String> {
    DB.with(|cell| {
        let mut slot = cell.borrow_mut();
        if slot.as_ref().map(|d| d.poisoned).unwrap_or(true) {
            *slot = None;
            let mut d = Db::create("sqlenum", Cfg { pool: 2, ..Cfg::default() })?;
            setup(&mut d)?;
            *slot = Some(d);
        }
        Ok(f(slot.as_mut().unwrap()))
    })
}

pub fn classify_tags(tags: &[&'static str], listed: &[String]) -> Option<String> {
    let map: BTreeMap<&str, &str> = [("right-join", "KF-right-join-drops-unmatched"), ("decimal-literal-zero-fraction", "KF-decimal-literal-with-zero-fraction-is-an-integer"), ("integer-literal-above-2^53", "KF-integer-literal-via-f64")].into_iter().collect();
    for t in tags {
        if let Some(id) = map.get(t) {
            if listed.iter().any(|l| l == id) {
                return Some(id.to_string());
            }
        }
    }
    None
}

pub fn worker(params: &Value, case: &Value) -> Value {
    let c: Chunk = serde_json::from_value(case.clone()).expect("chunk");
    let listed: Vec<String> = params["listed"].as_array().map(|a| a.iter().filter_map(|x| x.as_str().map(|s| s.to_string())).collect()).unwrap_or_default();
    let mut rep = ChunkReport::default();
    let mut fail = |rep: &mut ChunkReport, tags: &[&'static str], m: String| {
        if rep.failures.len() < 8 {
            rep.failures.push(match classify_tags(tags, &listed) {
                Some(id) => format!("{id} ## {m}"),
                None => m,
            });
        }
    };
    if c.group == "dml" {
        let cases = dml_cases();
        for i in c.start..c.end.min(cases.len() as u64) {
            let dc = &cases[i as usize];
            rep.evaluations += 1;
            rep.nontrivial += 1;
            if c.single && !c.side.is_empty() {
                let _ = std::fs::write(&c.side, &dc.sql);
            }
            if rep.sample.is_empty() {
                rep.sample = dc.sql.clone();
            }
            // a private database per DML case
            let r: Result<(), String> = (|| {
                let mut d = Db::create("dml", Cfg { pool: 2, ..Cfg::default() })?;
                setup(&mut d)?;
                let o = d.exec(&dc.sql);
                if o != Out::Count(dc.count) {
                    return Err(format!("reports {} but {} rows are addressed", o.show(), dc.count));
                }
                match d.exec("SELECT * FROM t") {
                    Out::Rows(rows) => {
                        if !rows_match(&rows, &dc.after, false, &None) {
                            return Err(format!("table afterwards is {} but should be {}", show_rows(&rows), show_rows(&dc.after)));
                        }
                    }
                    o => return Err(format!("SELECT afterwards: {}", o.show())),
                }
                // the other tables are untouched
                match d.exec("SELECT * FROM u") {
                    Out::Rows(rows) if rows_match(&rows, &u_rows(), false, &None) => Ok(()),
                    o => Err(format!("table u changed: {}", o.show())),
                }
            })();
            if let Err(e) = r {
                fail(&mut rep, &["dml"], format!("{}: {e}", dc.sql));
            }
        }
        return serde_json::to_value(rep).unwrap();
    }
    let qs = queries(&c.group);
    for i in c.start..c.end.min(qs.len() as u64) {
        let q = &qs[i as usize];
        rep.evaluations += 1;
        if c.single && !c.side.is_empty() {
            let _ = std::fs::write(&c.side, &q.sql);
        }
        if rep.sample.is_empty() {
            rep.sample = q.sql.clone();
        }
        let want = match &q.expect {
            Ok(w) => w,
            Err(_) => continue, // the reference does not define this query (type error): not in scope
        };
        if !want.is_empty() && want.len() != t_rows().len() {
            rep.nontrivial += 1;
        }
        let out = match with_db(|d| d.exec(&q.sql)) {
            Ok(o) => o,
            Err(e) => {
                fail(&mut rep, &q.tags, format!("machinery: {e}"));
                continue;
            }
        };
        match out {
            Out::Rows(rows) => {
                if !rows_match(&rows, want, q.ordered, &q.tie_groups) {
                    fail(&mut rep, &q.tags, format!("{} returns {} but SQL semantics prescribe {}", q.sql, show_rows(&rows), show_rows(want)));
                }
            }
            o => fail(&mut rep, &q.tags, format!("{}: {}", q.sql, o.show())),
        }
    }
    serde_json::to_value(rep).unwrap()
}

pub fn params(listed: Vec<String>) -> Value {
    json!({"listed": listed})
}
