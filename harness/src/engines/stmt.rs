//! `stmt` engine (C16): every input of several bounded input sets is offered to the real engine as
//! a statement. Each call must come back with rows, a count or an error - never a panic (dead pool
//! worker), never a hang, never a dead process - and after an error the database must answer a
//! probe and hold exactly the data it held before.

use crate::sqldrv::{Cfg, Db, ErrClass, Out, Val};
use serde::{Deserialize, Serialize};
use serde_json::{json, Value};

pub const SYMBOLS: [&str; 24] = ["'", "\"", "(", ")", ",", ";", "*", "=", "<", ">", "+", "-", "/", "%", ".", "0", "1", "9", "a", "_", "\u{0}", "\u{80}", "\u{ff}", " "];

pub const TOKENS: [&str; 58] = [
    "SELECT", "INSERT", "INTO", "VALUES", "UPDATE", "SET", "DELETE", "FROM", "WHERE", "CREATE", "TABLE", "DROP", "ALTER", "ADD", "COLUMN", "INDEX", "UNIQUE", "ON", "AND", "OR", "NOT", "NULL", "IS", "IN",
    "BETWEEN", "LIKE", "ORDER", "BY", "GROUP", "HAVING", "LIMIT", "OFFSET", "JOIN", "AS", "CASE", "WHEN", "THEN", "END", "EXISTS", "DISTINCT", "COUNT", "INT", "t", "k", "v", "0", "1", "'a'", "*", "(", ")", ",",
    "=", "<", "+", "-", "/", ";",
];

pub fn valid_statements() -> Vec<&'static str> {
    vec![
        "SELECT * FROM t",
        "SELECT k , v FROM t WHERE k = 1",
        "SELECT k + 1 , - v FROM t WHERE v IS NOT NULL AND k < 3",
        "SELECT COUNT ( * ) FROM t",
        "SELECT v , COUNT ( * ) FROM t GROUP BY v",
        "SELECT DISTINCT v FROM t ORDER BY v DESC LIMIT 2 OFFSET 1",
        "SELECT t . k , u . w FROM t JOIN u ON t . k = u . k WHERE u . w > 1",
        "SELECT k FROM t WHERE v BETWEEN 0 AND 10 OR s LIKE 'a%'",
        "SELECT k FROM t WHERE v IN ( 1 , 2 , NULL )",
        "INSERT INTO t VALUES ( 9 , 90 , 'z' )",
        "INSERT INTO t VALUES ( 9 , 90 , 'z' ) , ( 8 , NULL , NULL )",
        "UPDATE t SET v = v + 1 WHERE k = 1",
        "UPDATE t SET v = NULL , s = 'q'",
        "DELETE FROM t WHERE k = 2",
        "CREATE TABLE n ( a INT , b TEXT NOT NULL , UNIQUE ( a ) )",
        "CREATE UNIQUE INDEX ix ON u ( w )",
        "ALTER TABLE u ALTER COLUMN w SET NOT NULL",
        "DROP TABLE u",
        "SELECT k / 2 , k % 2 FROM t",
        "SELECT MIN ( s ) , MAX ( v ) , AVG ( v ) , SUM ( k ) FROM t WHERE NOT k = 4",
    ]
}

/// well-formed statements with wrong types, unknown names, zero divisors, NULL arguments, oversized values
pub fn typed_statements() -> Vec<String> {
    let mut v: Vec<String> = vec![
        "SELECT nosuch FROM t".into(),
        "SELECT * FROM nosuch".into(),
        "SELECT k FROM t WHERE s = 1".into(),
        "SELECT k FROM t WHERE k = 'a'".into(),
        "SELECT k + s FROM t".into(),
        "SELECT s * 2 FROM t".into(),
        "SELECT - s FROM t".into(),
        "SELECT k / 0 FROM t".into(),
        "SELECT k % 0 FROM t".into(),
        "SELECT k / v FROM t".into(),
        "SELECT 1 / 0".into(),
        "SELECT k / 0.0 FROM t".into(),
        "SELECT k FROM t WHERE k / 0 = 1".into(),
        "SELECT k FROM t WHERE NULL".into(),
        "SELECT k FROM t WHERE k".into(),
        "SELECT k FROM t WHERE s".into(),
        "SELECT k FROM t WHERE s LIKE NULL".into(),
        "SELECT k FROM t WHERE s LIKE 1".into(),
        "SELECT k FROM t WHERE k LIKE 'a'".into(),
        "SELECT k FROM t WHERE NULL LIKE 'a'".into(),
        "SELECT k FROM t WHERE k BETWEEN 'a' AND 'b'".into(),
        "SELECT k FROM t WHERE k IN ( 'a' , 1 )".into(),
        "SELECT k FROM t WHERE k IN ( )".into(),
        "SELECT SUM ( s ) FROM t".into(),
        "SELECT AVG ( s ) FROM t".into(),
        "SELECT MIN ( ) FROM t".into(),
        "SELECT COUNT ( k , v ) FROM t".into(),
        "SELECT ABS ( s ) FROM t".into(),
        "SELECT ABS ( NULL ) FROM t".into(),
        "SELECT ABS ( ) FROM t".into(),
        "SELECT k FROM t ORDER BY nosuch".into(),
        "SELECT k FROM t ORDER BY 7".into(),
        "SELECT k FROM t LIMIT - 1".into(),
        "SELECT k FROM t LIMIT 'a'".into(),
        "SELECT k FROM t LIMIT 99999999999999999999".into(),
        "SELECT k FROM t GROUP BY nosuch".into(),
        "SELECT k , COUNT ( * ) FROM t".into(),
        "SELECT v , COUNT ( * ) FROM t GROUP BY v HAVING COUNT ( * ) > 1".into(),
        "SELECT CASE WHEN k = 1 THEN 'one' ELSE 'other' END FROM t".into(),
        "SELECT k FROM t WHERE k IN ( SELECT k FROM u )".into(),
        "SELECT k FROM t WHERE EXISTS ( SELECT 1 FROM u )".into(),
        "SELECT ( SELECT 1 ) FROM t".into(),
        "SELECT * FROM t JOIN u ON t . nosuch = u . k".into(),
        "SELECT * FROM t JOIN nosuch ON 1 = 1".into(),
        "SELECT k FROM t , u".into(),
        "INSERT INTO t VALUES ( 1 )".into(),
        "INSERT INTO t VALUES ( 1 , 2 , 3 , 4 )".into(),
        "INSERT INTO t VALUES ( 'a' , 'b' , 'c' )".into(),
        "INSERT INTO t VALUES ( 1 , 2 , 3 )".into(),
        "INSERT INTO t VALUES ( 99999999999 , 1 , 'x' )".into(),
        "INSERT INTO t VALUES ( 1.5 , 1 , 'x' )".into(),
        "INSERT INTO t VALUES ( NULL , NULL , NULL )".into(),
        // statements that fail on a LATER row or operand, after earlier rows have been written
        "INSERT INTO t VALUES ( 20 , 1 , 'p' ) , ( 21 , 1 , 'q' ) , ( 22 , 1 , NULL )".into(),
        "INSERT INTO t VALUES ( 20 , 1 , 'p' ) , ( 21 , 1 , 'q' ) , ( 1 , 1 , 'dup' )".into(),
        "INSERT INTO t VALUES ( 20 , 1 , 'p' ) , ( NULL , 1 , 'q' )".into(),
        "INSERT INTO t VALUES ( 20 , 1 , 'p' ) , ( 21 , 1 , 'q' ) , ( 'a' , 1 , 'r' )".into(),
        "INSERT INTO t VALUES ( 20 , 1 , 'p' ) , ( 21 , 1 / 0 , 'q' )".into(),
        "UPDATE t SET k = 1".into(),
        "UPDATE t SET s = NULL WHERE k >= 3".into(),
        "UPDATE t SET v = 10 / ( k - 4 )".into(),
        "DELETE FROM t WHERE 10 / ( k - 4 ) > 0".into(),
        "INSERT INTO t ( nosuch ) VALUES ( 1 )".into(),
        "INSERT INTO nosuch VALUES ( 1 )".into(),
        "UPDATE t SET nosuch = 1".into(),
        "UPDATE t SET k = 'a'".into(),
        "UPDATE t SET v = v / 0".into(),
        "UPDATE t SET v = 99999999999".into(),
        "UPDATE nosuch SET v = 1".into(),
        "DELETE FROM nosuch".into(),
        "DELETE FROM t WHERE nosuch = 1".into(),
        "CREATE TABLE t ( a INT )".into(),
        "CREATE TABLE x ( a NOSUCHTYPE )".into(),
        "CREATE TABLE x ( a INT , a INT )".into(),
        "CREATE TABLE x ( )".into(),
        "CREATE TABLE x ( a INT , UNIQUE ( nosuch ) )".into(),
        "CREATE UNIQUE INDEX i ON nosuch ( a )".into(),
        "CREATE UNIQUE INDEX i ON t ( nosuch )".into(),
        "ALTER TABLE nosuch ADD COLUMN c INT".into(),
        "ALTER TABLE t DROP COLUMN nosuch".into(),
        "ALTER TABLE t ALTER COLUMN nosuch SET NOT NULL".into(),
        "DROP TABLE nosuch".into(),
        "DROP TABLE IF EXISTS nosuch".into(),
        "".into(),
        ";".into(),
        "SELECT".into(),
        "BEGIN".into(),
        "COMMIT".into(),
        "ROLLBACK".into(),
    ];
    // oversized literals
    v.push(format!("INSERT INTO t VALUES ( 1 , 1 , '{}' )", "x".repeat(1 << 20)));
    v.push(format!("SELECT k FROM t WHERE s = '{}'", "y".repeat(1 << 20)));
    v.push(format!("SELECT {} FROM t", "k + ".repeat(2000) + "k"));
    v
}

pub fn nesting_inputs() -> Vec<String> {
    let mut v = vec![];
    for n in [1usize, 10, 100, 1000, 5000, 20000] {
        v.push(format!("SELECT {}1{} FROM t", "(".repeat(n), ")".repeat(n)));
        v.push(format!("SELECT k FROM t WHERE {}TRUE", "NOT ".repeat(n)));
        v.push(format!("SELECT {}1 FROM t", "- ".repeat(n)));
        v.push(format!("SELECT k FROM t WHERE {}k = 1{}", "(".repeat(n), ")".repeat(n)));
        v.push(format!("SELECT 1{} FROM t", " + 1".repeat(n)));
        v.push(format!("SELECT k FROM t WHERE k = 1{}", " AND k = 1".repeat(n)));
        v.push(format!("SELECT k FROM t WHERE k IN ({}1)", "1, ".repeat(n)));
        v.push(format!("INSERT INTO t VALUES {}(1, 1, 'a')", "(1, 1, 'a'), ".repeat(n.min(2000))));
        v.push("(".repeat(n));
        v.push(format!("SELECT {}", "(SELECT ".repeat(n.min(200))));
    }
    v
}

/// operands of the arithmetic sweep: one column per SQL type of table m, and literals of every kind
pub const ARITH_OPERANDS: [&str; 17] = ["i", "b", "u", "q", "f", "d", "s", "o", "0", "1", "- 1", "0.0", "2.5", "NULL", "'a'", "2147483647", "9223372036854775807"];
pub const ARITH_OPS: [&str; 8] = ["+", "-", "*", "/", "%", "=", "<", ">="];
pub const ARITH_ROWS: u64 = 6;

/// `SELECT id, a op b FROM m WHERE id = r` and `SELECT id FROM m WHERE id = r AND (a op b) ...` for every
/// ordered operand pair, operator and row of m (row 0 holds a zero in every numeric column)
pub fn arith_inputs() -> Vec<String> {
    let mut v = vec![];
    for r in 0..ARITH_ROWS {
        for a in ARITH_OPERANDS {
            for op in ARITH_OPS {
                for b in ARITH_OPERANDS {
                    v.push(format!("SELECT id , {a} {op} {b} FROM m WHERE id = {r}"));
                    if matches!(op, "=" | "<" | ">=") {
                        v.push(format!("SELECT id FROM m WHERE id = {r} AND {a} {op} {b}"));
                    } else {
                        v.push(format!("SELECT id FROM m WHERE id = {r} AND ( {a} {op} {b} ) >= 0"));
                    }
                }
            }
            v.push(format!("SELECT id , - {a} FROM m WHERE id = {r}"));
            v.push(format!("SELECT id , ABS ( {a} ) FROM m WHERE id = {r}"));
            v.push(format!("SELECT id , ABS ( - {a} - 1 ) FROM m WHERE id = {r}"));
            v.push(format!("SELECT SUM ( {a} ) , AVG ( {a} ) FROM m"));
        }
    }
    v
}

/// statements that fail (unknown table / column) and whose error text echoes a name of EVERY length 1..=300 made of
/// 1-, 2-, 3- or 4-byte letters after 0..=3 ASCII characters (so that any byte offset of the text falls inside a
/// multi-byte character for some input)
pub fn long_name_inputs() -> Vec<String> {
    let mut v = vec![];
    for letter in ["q", "я", "好", "𐐷"] {
        for pre in ["", "a", "ab", "abc"] {
            for n in 1..=300usize {
                let name = format!("{pre}{}", letter.repeat(n));
                match n % 3 {
                    0 => v.push(format!("SELECT * FROM {name}")),
                    1 => v.push(format!("SELECT {name} FROM t")),
                    _ => v.push(format!("INSERT INTO {name} VALUES ( 1 )")),
                }
            }
        }
    }
    // the same inside a string literal that the error echoes (type mismatch) and in an over-long token
    for letter in ["я", "好"] {
        for n in [100usize, 127, 128, 129, 255, 256, 257, 1000] {
            v.push(format!("SELECT k FROM t WHERE k = '{}'", letter.repeat(n)));
            v.push(format!("UPDATE t SET k = '{}'", letter.repeat(n)));
            v.push(format!("SELECT k FROM t WHERE {}", letter.repeat(n)));
        }
    }
    v
}

/// every LIKE pattern of length <= 4 over { %, _, \%, \_, \\, a, b }, plain and negated, against a table of short texts
/// with and without the special characters: each must come back (the matcher backtracks; escapes after a % are where
/// it can loop)
pub fn like_inputs() -> Vec<String> {
    let syms = ["%", "_", "\\%", "\\_", "\\\\", "a", "b"];
    let mut pats: Vec<String> = vec![String::new()];
    let mut layer: Vec<String> = vec![String::new()];
    for _ in 0..4 {
        let mut next = vec![];
        for p in &layer {
            for s in syms {
                next.push(format!("{p}{s}"));
            }
        }
        pats.extend(next.iter().cloned());
        layer = next;
    }
    let mut v = vec![];
    for p in pats {
        v.push(format!("SELECT id FROM lk WHERE name LIKE '{p}'"));
        if p.len() <= 3 {
            v.push(format!("SELECT id FROM lk WHERE name NOT LIKE '{p}'"));
        }
    }
    v
}

pub fn group_size(group: &str, thorough: bool) -> u64 {
    let s = SYMBOLS.len() as u64;
    let t = TOKENS.len() as u64;
    match group {
        "bytes-le2" => 1 + 256 + 65536,
        "symbols" => {
            let k = if thorough { 4 } else { 3 };
            (1..=k).map(|i| s.pow(i)).sum()
        }
        "tokens" => {
            let k = if thorough { 4 } else { 3 };
            (1..=k).map(|i| t.pow(i)).sum()
        }
        "mutations" => mutation_inputs().len() as u64,
        "nesting" => nesting_inputs().len() as u64,
        "typed-arith" => arith_inputs().len() as u64,
        "long-names" => long_name_inputs().len() as u64,
        "like-patterns" => like_inputs().len() as u64,
        "typed" => typed_statements().len() as u64 * 3,
        "typed-session" => typed_statements().len() as u64 * 3,
        _ => 0,
    }
}

pub fn mutation_inputs() -> Vec<String> {
    let mut out = vec![];
    for st in valid_statements() {
        let toks: Vec<&str> = st.split_whitespace().collect();
        // every prefix
        for n in 0..toks.len() {
            out.push(toks[..n].join(" "));
        }
        for i in 0..toks.len() {
            // deletion, duplication
            let mut d = toks.clone();
            d.remove(i);
            out.push(d.join(" "));
            let mut d = toks.clone();
            d.insert(i, toks[i]);
            out.push(d.join(" "));
            // substitution by every vocabulary token
            for t in TOKENS {
                if t != toks[i] {
                    let mut d = toks.clone();
                    d[i] = t;
                    out.push(d.join(" "));
                }
            }
        }
    }
    out
}

fn nth_string(alphabet: &[&str], mut idx: u64, sep: &str) -> String {
    // strings ordered by length then lexicographically
    let n = alphabet.len() as u64;
    let mut len = 1u32;
    while idx >= n.pow(len) {
        idx -= n.pow(len);
        len += 1;
    }
    let mut parts = vec![];
    for _ in 0..len {
        parts.push(alphabet[(idx % n) as usize]);
        idx /= n;
    }
    parts.reverse();
    parts.join(sep)
}

pub fn input_of(group: &str, idx: u64) -> String {
    match group {
        "bytes-le2" => {
            if idx == 0 {
                String::new()
            } else if idx <= 256 {
                char::from_u32(idx as u32 - 1).map(|c| c.to_string()).unwrap_or_default()
            } else {
                let k = idx - 257;
                let a = char::from_u32((k >> 8) as u32).unwrap_or(' ');
                let b = char::from_u32((k & 0xff) as u32).unwrap_or(' ');
                format!("{a}{b}")
            }
        }
        "symbols" => nth_string(&SYMBOLS, idx, ""),
        "tokens" => nth_string(&TOKENS, idx, " "),
        "mutations" => mutation_inputs().get(idx as usize).cloned().unwrap_or_default(),
        "nesting" => nesting_inputs().get(idx as usize).cloned().unwrap_or_default(),
        "typed-arith" => arith_inputs().get(idx as usize).cloned().unwrap_or_default(),
        "long-names" => long_name_inputs().get(idx as usize).cloned().unwrap_or_default(),
        "like-patterns" => like_inputs().get(idx as usize).cloned().unwrap_or_default(),
        _ => String::new(),
    }
}

fn baseline_rows() -> Vec<Vec<Val>> {
    crate::engines::sqlenum::t_rows()
}

fn schema_setup(db: &mut Db, variant: u64) -> Result<(), String> {
    let mut run = |sql: &str| -> Result<(), String> {
        let o = db.exec(sql);
        if o.is_err() { Err(format!("{sql}: {}", o.show())) } else { Ok(()) }
    };
    match variant {
        0 => run("CREATE TABLE t (k INT, v INT, s TEXT)")?,
        1 => run("CREATE TABLE t (k INT, v INT, s TEXT, UNIQUE(k))")?,
        _ => run("CREATE TABLE t (k INT NOT NULL, v INT, s TEXT NOT NULL)")?,
    }
    run("CREATE TABLE u (k INT, w INT)")?;
    let rows = if variant == 2 { baseline_rows().into_iter().filter(|r| r[2] != Val::Null).collect::<Vec<_>>() } else { baseline_rows() };
    let body = rows.iter().map(|r| format!("({})", r.iter().map(crate::model::lit).collect::<Vec<_>>().join(", "))).collect::<Vec<_>>().join(", ");
    run(&format!("INSERT INTO t VALUES {body}"))?;
    run("INSERT INTO u VALUES (1, 100), (3, 300)")?;
    // one column per SQL type; row 0 holds a zero in every numeric column, row 3 NULLs
    run("CREATE TABLE m (id INT, i INT, b BIGINT, u UINT, q BIGUINT, f FLOAT, d DOUBLE, s TEXT, o BOOLEAN)")?;
    run("INSERT INTO m VALUES (0, 0, 0, 0, 0, 0.0, 0.0, '', FALSE)")?;
    run("INSERT INTO m VALUES (1, 1, 1, 1, 1, 1.5, 1.5, 'a', TRUE)")?;
    run("INSERT INTO m VALUES (2, -3, -3, 7, 9, -2.25, -2.25, 'b', TRUE)")?;
    run("INSERT INTO m VALUES (3, NULL, NULL, NULL, NULL, NULL, NULL, NULL, NULL)")?;
    // texts for the LIKE sweep
    run("CREATE TABLE lk (id INT, name TEXT)")?;
    run("INSERT INTO lk VALUES (0, ''), (1, 'a'), (2, 'ab'), (3, 'a_b'), (4, 'a%b'), (5, 'report_final'), (6, 'a\\b'), (7, 'bbbbab'), (8, NULL)")?;
    // the largest and the smallest value of every numeric type
    run("INSERT INTO m VALUES (4, 2147483647, 9223372036854775807, 4294967295, 18446744073709551615, 300000000000000000000000000000000000000.0, 100000000000000000000000000000000000000000000000000000000000000000000000000000000000000000000000000000000000000000000000000000000000000000000000000000000000000000000000000000000000000000000000000000000000000000000000000000000000000000000000000000000000000000000000000000000000000000000000000000000000.0, 'zz', TRUE)")?;
    run("INSERT INTO m VALUES (5, -2147483647 - 1, -9223372036854775807, 0, 0, -300000000000000000000000000000000000000.0, -0.5, 'a', FALSE)")?;
    Ok(())
}

thread_local! {
    static DB: std::cell::RefCell<Option<(Db, u64)>> = const { std::cell::RefCell::new(None) };
}

fn read_t(d: &mut Db) -> Out {
    d.exec("SELECT * FROM t")
}

fn rows_eq(a: &Out, b: &Out) -> bool {
    match (a, b) {
        (Out::Rows(x), Out::Rows(y)) => {
            let (mut x, mut y) = (x.clone(), y.clone());
            x.sort();
            y.sort();
            x == y
        }
        (Out::Err(c1, _), Out::Err(c2, _)) => c1 == c2,
        _ => false,
    }
}

fn short(s: &str) -> String {
    let esc: String = s.chars().take(160).map(|c| if c.is_control() || (c as u32) >= 0x80 { format!("\\u{{{:x}}}", c as u32) } else { c.to_string() }).collect();
    if s.chars().count() > 160 { format!("{esc}…({} chars)", s.chars().count()) } else { esc }
}

/// known-finding triggers by statement content (only when the statement made a worker panic)
pub fn trigger_of(sql: &str) -> Option<&'static str> {
    let u = sql.to_ascii_uppercase();
    if u.contains("CASE") {
        Some("KT-case-panics")
    } else if u.contains("( SELECT") || u.contains("(SELECT") || u.contains("EXISTS") {
        Some("KT-subquery-panics")
    } else if u.contains("HAVING") {
        Some("KT-having-panics")
    } else {
        None
    }
}

/// Offer one statement to a database that currently holds `before`; returns Err(description) on a violation.
/// On success returns whether the database must be rebuilt (its content changed legitimately).
fn offer(d: &mut Db, sql: &str, session: Option<u8>) -> Result<bool, String> {
    // inside a session the data is compared as the SESSION sees it (a failed statement must not leave
    // partial effects in its own transaction either)
    if let Some(s) = session {
        let before = d.sexec(s, "SELECT * FROM t");
        let out = d.sexec(s, sql);
        if let Out::Err(ErrClass::WorkerDied, m) = &out {
            return Err(format!("PANIC in a pool worker: {}", m.chars().take(300).collect::<String>()));
        }
        if d.poisoned {
            return Err(format!("panic observed during the call: {}", crate::sqldrv::last_panic()));
        }
        let after = d.sexec(s, "SELECT * FROM t");
        if let Out::Err(ErrClass::WorkerDied, m) = &after {
            return Err(format!("the probe after the statement killed a worker: {m}"));
        }
        if out.is_err() && !before.is_err() && !rows_eq(&before, &after) {
            return Err(format!("the statement failed ({}) but the session now sees different data: {} -> {}", out.show().chars().take(120).collect::<String>(), before.show().chars().take(200).collect::<String>(), after.show().chars().take(200).collect::<String>()));
        }
        return Ok(false);
    }
    let before = read_t(d);
    let out = match session {
        None => d.exec(sql),
        Some(s) => d.sexec(s, sql),
    };
    if let Out::Err(ErrClass::WorkerDied, m) = &out {
        return Err(format!("PANIC in a pool worker: {}", m.chars().take(300).collect::<String>()));
    }
    if d.poisoned {
        return Err(format!("panic observed during the call: {}", crate::sqldrv::last_panic()));
    }
    // liveness probe + state comparison
    let after = read_t(d);
    if let Out::Err(ErrClass::WorkerDied, m) = &after {
        return Err(format!("the probe after the statement killed a worker: {m}"));
    }
    match &out {
        Out::Err(_, _) => {
            if session.is_none() && !rows_eq(&before, &after) {
                return Err(format!("the statement failed ({}) but the table changed: {} -> {}", out.show().chars().take(120).collect::<String>(), before.show().chars().take(200).collect::<String>(), after.show().chars().take(200).collect::<String>()));
            }
            Ok(false)
        }
        _ => Ok(!rows_eq(&before, &after) || sql.to_ascii_uppercase().contains("CREATE") || sql.to_ascii_uppercase().contains("DROP") || sql.to_ascii_uppercase().contains("ALTER")),
    }
}

#[derive(Debug, Clone, Serialize, Deserialize)]
pub struct Chunk {
    pub group: String,
    pub start: u64,
    pub end: u64,
    #[serde(default)]
    pub single: bool,
    #[serde(default)]
    pub side: String,
}

#[derive(Debug, Clone, Default, Serialize, Deserialize)]
pub struct ChunkReport {
    pub evaluations: u64,
    pub nontrivial: u64,
    pub failures: Vec<String>,
    pub sample: String,
}

fn with_db<T>(variant: u64, f: impl FnOnce(&mut Db) -> T) -> Result<T, String> {
    DB.with(|cell| {
        let mut slot = cell.borrow_mut();
        let stale = match slot.as_ref() {
            Some((d, v)) => d.poisoned || *v != variant,
            None => true,
        };
        if stale {
            *slot = None;
            let mut d = Db::create("stmt", Cfg { pool: 2, ..Cfg::default() })?;
            schema_setup(&mut d, variant)?;
            *slot = Some((d, variant));
        }
        Ok(f(&mut slot.as_mut().unwrap().0))
    })
}

fn reset_db() {
    DB.with(|cell| *cell.borrow_mut() = None);
}

pub fn worker(params: &Value, case: &Value) -> Value {
    let c: Chunk = serde_json::from_value(case.clone()).expect("chunk");
    let listed: Vec<String> = params["listed"].as_array().map(|a| a.iter().filter_map(|x| x.as_str().map(|s| s.to_string())).collect()).unwrap_or_default();
    let mut rep = ChunkReport::default();
    let mut fail = |rep: &mut ChunkReport, sql: &str, m: String| {
        if rep.failures.len() < 8 {
            let up = sql.trim_start().to_ascii_uppercase();
            let state_changed = m.contains("but the table changed") || m.contains("sees different data");
            let shape: Option<&str> = if up.starts_with("UPDATE") && state_changed {
                // UPDATE is applied in place and never undone (C03 KF-update-in-place): a failing UPDATE keeps the
                // rows it had already changed
                Some("KT-failed-update-keeps-changed-rows")
            } else if up.starts_with("INSERT") && sql.contains(") , (") && m.contains("of a session") && m.contains("sees different data") {
                // (multi-row statements only: a single-row INSERT that fails and leaves ITS OWN row behind is not this finding)
                // no statement-level rollback inside an explicit transaction: the rows written before the failing
                // row stay visible to the session (and are committed with it)
                Some("KT-failed-insert-in-session-keeps-earlier-rows")
            } else {
                None
            };
            let id = if m.contains("PANIC") || m.contains("panic") { trigger_of(sql).filter(|t| listed.iter().any(|l| l == t)) } else { shape.filter(|t| listed.iter().any(|l| l == t)) };
            rep.failures.push(match id {
                Some(id) => format!("{id} ## `{}`: {m}", short(sql)),
                None => format!("`{}`: {m}", short(sql)),
            });
        }
    };
    for idx in c.start..c.end {
        rep.evaluations += 1;
        if c.group == "typed" || c.group == "typed-session" {
            let stmts = typed_statements();
            let n = stmts.len() as u64;
            let variant = idx / n;
            let sql = &stmts[(idx % n) as usize];
            if c.single && !c.side.is_empty() {
                let _ = std::fs::write(&c.side, format!("schema variant {variant}: {}", short(sql)));
            }
            if rep.sample.is_empty() {
                rep.sample = format!("schema variant {variant}: {}", short(sql));
            }
            rep.nontrivial += 1;
            if c.group == "typed" {
                match with_db(variant, |d| offer(d, sql, None)) {
                    Ok(Ok(changed)) => {
                        if changed {
                            reset_db();
                        }
                    }
                    Ok(Err(e)) => {
                        fail(&mut rep, sql, e);
                        reset_db();
                    }
                    Err(e) => fail(&mut rep, sql, format!("machinery: {e}")),
                }
            } else {
                // at every position of a three-statement session: before, between and after ordinary statements
                for pos in 0..3 {
                    reset_db();
                    let r = with_db(variant, |d| -> Result<(), String> {
                        d.begin(1)?;
                        let mut good = 0;
                        for step in 0..3 {
                            if step == pos {
                                if let Err(e) = offer(d, sql, Some(1)) {
                                    return Err(format!("at position {pos} of a session: {e}"));
                                }
                            }
                            if d.poisoned {
                                return Err("instance poisoned".into());
                            }
                            let o = d.sexec(1, &format!("INSERT INTO u VALUES ({}, {})", 50 + step, step));
                            if o == Out::Count(1) {
                                good += 1;
                            } else if !matches!(o, Out::Err(ErrClass::Bind, _) | Out::Err(ErrClass::NotFound, _)) || !sql.to_ascii_uppercase().contains("DROP TABLE U") {
                                return Err(format!("at position {pos}: the session's next ordinary statement failed: {}", o.show().chars().take(200).collect::<String>()));
                            }
                        }
                        let _ = good;
                        match d.commit(1) {
                            Ok(()) => Ok(()),
                            Err((c, m)) => Err(format!("commit of the session failed after the statement at position {pos}: {c:?} {m}")),
                        }
                    });
                    match r {
                        Ok(Ok(())) => {}
                        Ok(Err(e)) => {
                            // listed finding: NULL into a UNIQUE column fails in index maintenance AFTER the table write
                            let t = "KT-null-in-unique-fails-after-table-write";
                            if variant == 1 && sql.to_ascii_uppercase().contains("INSERT") && sql.contains("NULL") && e.contains("sees different data") && listed.iter().any(|l| l == t) {
                                if rep.failures.len() < 8 {
                                    rep.failures.push(format!("{t} ## `{}`: {e}", short(sql)));
                                }
                            } else {
                                fail(&mut rep, sql, e)
                            }
                        }
                        Err(e) => fail(&mut rep, sql, format!("machinery: {e}")),
                    }
                }
                reset_db();
            }
            continue;
        }
        let sql = input_of(&c.group, idx);
        if c.single && !c.side.is_empty() {
            let _ = std::fs::write(&c.side, short(&sql));
        }
        if rep.sample.is_empty() {
            rep.sample = short(&sql);
        }
        match with_db(0, |d| {
            let out = d.exec(&sql);
            if let Out::Err(ErrClass::WorkerDied, m) = &out {
                return Err(format!("PANIC in a pool worker: {}", m.chars().take(300).collect::<String>()));
            }
            if d.poisoned {
                return Err(format!("panic observed during the call: {}", crate::sqldrv::last_panic()));
            }
            match &out {
                Out::Err(ErrClass::Parse, _) => Ok((false, false)),
                Out::Err(_, _) => {
                    // the statement got past the parser: probe and compare the data
                    match read_t(d) {
                        Out::Rows(r) => {
                            let mut r = r;
                            r.sort();
                            let mut b = baseline_rows();
                            b.sort();
                            if r != b { Err(format!("the statement failed ({}) but table t changed", out.show().chars().take(120).collect::<String>())) } else { Ok((true, false)) }
                        }
                        o => Err(format!("probe after the failed statement: {}", o.show().chars().take(200).collect::<String>())),
                    }
                }
                _ => Ok((true, true)),
            }
        }) {
            Ok(Ok((nontrivial, maybe_changed))) => {
                if nontrivial {
                    rep.nontrivial += 1;
                }
                if maybe_changed {
                    let u = sql.to_ascii_uppercase();
                    if u.contains("INSERT") || u.contains("UPDATE") || u.contains("DELETE") || u.contains("CREATE") || u.contains("DROP") || u.contains("ALTER") {
                        reset_db();
                    }
                }
            }
            Ok(Err(e)) => {
                fail(&mut rep, &sql, e);
                reset_db();
            }
            Err(e) => fail(&mut rep, &sql, format!("machinery: {e}")),
        }
    }
    serde_json::to_value(rep).unwrap()
}

pub fn params(thorough: bool, listed: Vec<String>) -> Value {
    json!({"thorough": thorough, "listed": listed})
}
