//! `seq` engine: statement-level operation sequences of 1-3 sessions through the public API,
//! compared step by step with the snapshot-isolation reference model.

use crate::explore::StepReport;
use crate::model::*;
use crate::sqldrv::*;
use serde::{Deserialize, Serialize};
use serde_json::Value;
use std::collections::{BTreeMap, BTreeSet};

#[derive(Debug, Clone, Serialize, Deserialize)]
pub struct SeqParams {
    pub property: String,
    pub cfg: Cfg,
    /// operations that build the seed state (executed and judged like any other)
    pub prefix: Vec<Op>,
    pub alphabet: Vec<Op>,
    /// finding ids that may be used as hazards
    pub hazards: Vec<String>,
    /// run a fresh-transaction read of every table at the end of each history
    pub audit_end: bool,
    /// after the history: close, reopen and audit again (C09-style persistence oracle)
    pub reopen_end: bool,
    /// run VACUUM at the end and require the audit to be unchanged (C13-style oracle)
    pub vacuum_end: bool,
    /// configuration used for reopen (None = same as cfg)
    pub reopen_cfg: Option<Cfg>,
    /// C12, caches below the documented range: an explicit out-of-memory answer to an autocommit statement or
    /// maintenance call is accepted, provided the database still holds exactly what it held before it
    #[serde(default)]
    pub oom_tolerant: bool,
    /// VACUUM is part of the alphabet also while sessions are open
    #[serde(default)]
    pub vacuum_with_sessions: bool,
    /// C11 at SQL level: at the end of every history without an open session and without invisible relations
    /// (rolled-back CREATE, DROP not yet vacuumed) take the whole-file page census
    #[serde(default)]
    pub census_end: bool,
}

pub fn enabled(m: &Model, op: &Op) -> bool {
    match op {
        Op::Begin(n) => {
            let smallest_free = (1u8..).find(|k| !m.sessions.contains_key(k)).unwrap();
            *n == smallest_free
        }
        Op::In(n, _) | Op::Commit(n) | Op::Rollback(n) | Op::DropSession(n) => m.sessions.contains_key(n),
        // VACUUM is documented to abort open transactions and reopen ends them; a checkpoint (flush) with
        // sessions open is ordinary use and matters for C02 (uncommitted data reaches the data file)
        Op::Vacuum => m.sessions.is_empty() || m.vacuum_with_sessions,
        Op::Reopen => m.sessions.is_empty(),
        // ANALYZE next to open sessions is ordinary use (it rewrites the statistics in every table's catalogue row)
        Op::Analyze => true,
        Op::Flush => true,
        Op::Audit => true,
        Op::Auto(_) | Op::Batch(_) => true,
    }
}

pub fn conforms(exp: &Exp, out: &Out) -> bool {
    match (exp, out) {
        (Exp::Rows(e), Out::Rows(o)) => {
            let mut o: Vec<Vec<Val>> = o.clone();
            o.sort();
            if e.len() != o.len() {
                return false;
            }
            // model rows are sorted too, but numeric representation may differ (Int vs Real)
            let mut e2 = e.clone();
            e2.sort();
            e2.iter().zip(o.iter()).all(|(a, b)| a.len() == b.len() && a.iter().zip(b.iter()).all(|(x, y)| val_eq(x, y)))
        }
        (Exp::Count(a), Out::Count(b)) => a == b,
        (Exp::Ddl, Out::Ddl) => true,
        (Exp::Err(c), Out::Err(d, _)) => err_class_matches(*c, *d),
        _ => false,
    }
}

pub fn err_class_matches(expected: ErrClass, got: ErrClass) -> bool {
    use ErrClass::*;
    if expected == got {
        return true;
    }
    match (expected, got) {
        // "unknown object" is reported by the binder or by the catalogue, "already exists" by either
        (Bind, NotFound) | (NotFound, Bind) => true,
        (AlreadyExists, Bind) | (Bind, AlreadyExists) => true,
        // a constraint violation may be reported with either label
        (Unique, Constraint) | (NotNull, Constraint) => true,
        // building a unique index over existing duplicates is refused by the tree ("key already exists")
        (Unique, AlreadyExists) => true,
        _ => false,
    }
}

pub struct Exec {
    pub db: Db,
    pub oom_tolerant: bool,
    pub model: Model,
    pub log: Vec<String>,
    pub digest: Vec<String>,
    pub counters: BTreeMap<String, u64>,
}

pub enum StepVerdict {
    Ok,
    Diverged(String),
}

impl Exec {
    pub fn new(p: &SeqParams) -> Result<Exec, String> {
        let hz: BTreeSet<String> = p.hazards.iter().cloned().collect();
        let db = Db::create("seq", p.cfg)?;
        let mut model = Model::new(&hz);
        model.vacuum_with_sessions = p.vacuum_with_sessions;
        model.exact_updates = !matches!(p.property.as_str(), "C01" | "C02" | "C08");
        Ok(Exec { db, oom_tolerant: p.oom_tolerant, model, log: vec![], digest: vec![], counters: BTreeMap::new() })
    }

    fn count(&mut self, k: &str) {
        *self.counters.entry(k.to_string()).or_insert(0) += 1;
    }

    /// Execute one operation on engine and model. Returns divergence description if any.
    /// After an accepted out-of-memory answer: the model is put back to `before` and every table the engine can
    /// still read must hold exactly the model's rows (a read that itself runs out of memory proves nothing).
    fn after_oom(&mut self, before: Model, what: &str) -> Option<String> {
        self.model = before;
        self.count("permitted_out_of_memory_answers");
        let mut m = self.model.clone();
        let names = m.committed_tables();
        let exps = m.apply(&Op::Audit);
        for (name, e) in names.iter().zip(exps.iter()) {
            let out = self.db.exec(&format!("SELECT * FROM {name}"));
            if out.err_class() == Some(ErrClass::OutOfCache) {
                self.count("reads_after_out_of_memory_that_ran_out_of_memory_too");
                continue;
            }
            if !conforms(e, &out) {
                return Some(format!("{what} answered out of memory, and afterwards {name} no longer holds what it held before the statement: expected {}, got {}", e.show(), out.show()));
            }
        }
        None
    }

    pub fn step(&mut self, op: &Op, reopen_cfg: Cfg) -> StepVerdict {
        let before = if self.oom_tolerant && self.model.sessions.is_empty() { Some(self.model.clone()) } else { None };
        let exps = self.model.apply(op);
        let mut div: Option<String> = None;
        let mut note = |this: &mut Exec, what: String, exp: &Exp, got: String, ok: bool| {
            this.log.push(format!("{what}  => {got}{}", if ok { String::new() } else { format!("   <<< expected {}", exp.show()) }));
            this.digest.push(got);
        };
        match op {
            Op::Auto(s) => {
                let out = self.db.exec(&s.sql());
                let ok = conforms(&exps[0], &out);
                if out.is_err() {
                    self.count("failed_statements");
                }
                note(self, op.show(), &exps[0], out.show(), ok);
                if !ok {
                    if let (Some(b), Some(ErrClass::OutOfCache)) = (before.clone(), out.err_class()) {
                        div = self.after_oom(b, &op.show());
                    } else {
                        div = Some(format!("{}: expected {}, got {}", op.show(), exps[0].show(), out.show()));
                    }
                }
            }
            Op::In(n, s) => {
                let out = self.db.sexec(*n, &s.sql());
                let ok = conforms(&exps[0], &out);
                if out.is_err() {
                    self.count("failed_statements_in_txn");
                }
                note(self, op.show(), &exps[0], out.show(), ok);
                if !ok {
                    div = Some(format!("{}: expected {}, got {}", op.show(), exps[0].show(), out.show()));
                }
            }
            Op::Audit => {
                let names = self.model.committed_tables();
                for (name, e) in names.iter().zip(exps.iter()) {
                    let out = self.db.exec(&format!("SELECT * FROM {name}"));
                    let ok = conforms(e, &out);
                    note(self, format!("audit {name}"), e, out.show(), ok);
                    if !ok && div.is_none() {
                        div = Some(format!("fresh read of {name}: expected {}, got {}", e.show(), out.show()));
                    }
                }
            }
            Op::Begin(n) => {
                let r = self.db.begin(*n);
                let ok = r.is_ok();
                note(self, op.show(), &Exp::Unit, format!("{r:?}"), ok);
                if !ok {
                    div = Some(format!("{}: {:?}", op.show(), r));
                }
            }
            Op::Commit(n) => {
                self.count("commits");
                let r = self.db.commit(*n);
                // a session whose transaction was aborted under it (VACUUM) must not be able to commit
                let must_fail = matches!(exps.first(), Some(Exp::Err(_)));
                let ok = if must_fail { r.is_err() } else { r.is_ok() };
                note(self, op.show(), &exps[0], format!("{r:?}"), ok);
                if !ok {
                    div = Some(format!("{}: {:?}", op.show(), r));
                }
            }
            Op::Rollback(n) => {
                self.count("rollbacks");
                let r = self.db.rollback(*n);
                let ok = r.is_ok();
                note(self, op.show(), &Exp::Unit, format!("{r:?}"), ok);
                if !ok {
                    div = Some(format!("{}: {:?}", op.show(), r));
                }
            }
            Op::DropSession(n) => {
                self.count("session_drops");
                self.db.drop_session(*n);
                note(self, op.show(), &Exp::Unit, "dropped".into(), true);
            }
            Op::Batch(stmts) => {
                let sqls: Vec<String> = stmts.iter().map(|s| s.sql()).collect();
                match self.db.exec_batch(&sqls) {
                    Ok(outs) => {
                        let ok = outs.len() == exps.len() && outs.iter().zip(exps.iter()).all(|(o, e)| conforms(e, o));
                        let shown = outs.iter().map(|o| o.show()).collect::<Vec<_>>().join(" | ");
                        let e0 = exps.first().cloned().unwrap_or(Exp::Unit);
                        note(self, op.show(), &e0, shown.clone(), ok);
                        if !ok {
                            div = Some(format!("{}: expected [{}], got [{}]", op.show(), exps.iter().map(|e| e.show()).collect::<Vec<_>>().join(" | "), shown));
                        }
                    }
                    Err(out) => {
                        self.count("failed_batches");
                        let ok = exps.len() == 1 && conforms(&exps[0], &out);
                        note(self, op.show(), &exps[0], out.show(), ok);
                        if !ok {
                            div = Some(format!("{}: expected [{}], got {}", op.show(), exps.iter().map(|e| e.show()).collect::<Vec<_>>().join(" | "), out.show()));
                        }
                    }
                }
            }
            Op::Vacuum => {
                self.count("vacuums");
                let r = self.db.vacuum();
                let ok = r.is_ok();
                note(self, op.show(), &Exp::Unit, format!("{r:?}"), ok);
                if !ok {
                    match (before.clone(), &r) {
                        (Some(b), Err((ErrClass::OutOfCache, _))) => div = self.after_oom(b, "vacuum"),
                        _ => div = Some(format!("vacuum: {:?}", r)),
                    }
                }
            }
            Op::Flush => {
                self.count("flushes");
                let r = self.db.flush();
                let ok = r.is_ok();
                note(self, op.show(), &Exp::Unit, format!("{r:?}"), ok);
                if !ok {
                    div = Some(format!("flush: {:?}", r));
                }
            }
            Op::Analyze => {
                let r = self.db.analyze();
                let ok = r.is_ok();
                note(self, op.show(), &Exp::Unit, format!("{r:?}"), ok);
                if !ok {
                    div = Some(format!("analyze: {:?}", r));
                }
            }
            Op::Reopen => {
                self.count("reopens");
                let r = self.db.reopen(reopen_cfg);
                let ok = r.is_ok();
                note(self, op.show(), &Exp::Unit, format!("{r:?}"), ok);
                if !ok {
                    div = Some(format!("reopen: {:?}", r));
                }
            }
        }
        if self.db.poisoned && div.is_none() {
            div = Some(format!("{}: a panic was observed inside the engine: {}", op.show(), last_panic()));
        }
        match div {
            Some(d) => StepVerdict::Diverged(d),
            None => StepVerdict::Ok,
        }
    }
}

/// Run one history. Returns the report (without the confirmation re-runs).
pub fn run_once(p: &SeqParams, hist: &[usize]) -> StepReport {
    let mut rep = StepReport::default();
    let mut ex = match Exec::new(p) {
        Ok(e) => e,
        Err(e) => {
            rep.status = "machinery".into();
            rep.detail = e;
            return rep;
        }
    };
    let rcfg = p.reopen_cfg.unwrap_or(p.cfg);
    let finish = |ex: &Exec, rep: &mut StepReport| {
        rep.key = ex.model.key();
        rep.counters = ex.counters.clone();
        let mut h = std::collections::hash_map::DefaultHasher::new();
        use std::hash::{Hash, Hasher};
        ex.digest.hash(&mut h);
        rep.outcome = format!("{:x}", h.finish());
    };
    // seed prefix: must conform and must not taint
    for op in &p.prefix {
        if !enabled(&ex.model, op) {
            rep.status = "machinery".into();
            rep.detail = format!("seed prefix op not enabled: {}", op.show());
            return rep;
        }
        if let StepVerdict::Diverged(d) = ex.step(op, rcfg) {
            // a divergence inside the seed prefix is judged like any other
            return judge_divergence(&mut ex, rep, d, finish);
        }
        if ex.model.tainted() {
            rep.status = "machinery".into();
            rep.detail = format!("seed prefix fires a hazard: {:?}", ex.model.taint);
            return rep;
        }
    }
    for (i, oi) in hist.iter().enumerate() {
        let op = &p.alphabet[*oi];
        let last = i + 1 == hist.len();
        if !enabled(&ex.model, op) {
            rep.status = if last { "disabled".into() } else { "machinery".into() };
            rep.detail = format!("op not enabled: {}", op.show());
            return rep;
        }
        let verdict = ex.step(op, rcfg);
        if ex.model.tainted() {
            // hazard step: not judged. Observe whether the engine actually deviates, for the report.
            let mut diverged = matches!(verdict, StepVerdict::Diverged(_));
            let mut detail = match verdict {
                StepVerdict::Diverged(d) => d,
                StepVerdict::Ok => String::new(),
            };
            if !diverged && !ex.db.poisoned {
                // look a little further: close open sessions the way the model expects and audit
                let open: Vec<u8> = ex.model.sessions.keys().copied().collect();
                for s in open {
                    let _ = ex.step(&Op::Rollback(s), rcfg);
                }
                if let StepVerdict::Diverged(d) = ex.step(&Op::Audit, rcfg) {
                    diverged = true;
                    detail = d;
                }
            }
            rep.findings = ex.model.taint.clone();
            rep.status = if diverged { "known".into() } else { "tainted".into() };
            rep.detail = format!("{detail}\n{}", ex.log.join("\n"));
            rep.stop = true;
            finish(&ex, &mut rep);
            return rep;
        }
        if let StepVerdict::Diverged(d) = verdict {
            return judge_divergence(&mut ex, rep, d, finish);
        }
    }
    // end-of-history oracles
    if p.census_end && ex.model.sessions.is_empty() && ex.model.no_invisible_relations() {
        match ex.db.page_census() {
            Ok(problems) => {
                ex.count("page_censuses");
                if let Some(first) = problems.first() {
                    return judge_divergence(&mut ex, rep, format!("page census at the end of the history: {first} ({} problems)", problems.len()), finish);
                }
            }
            Err(e) => return judge_divergence(&mut ex, rep, format!("page census failed: {e}"), finish),
        }
    }
    if ex.model.pending_update.is_empty() && ex.model.pending_reinsert.is_empty() {
        if p.audit_end {
            if let StepVerdict::Diverged(d) = ex.step(&Op::Audit, rcfg) {
                return judge_divergence(&mut ex, rep, format!("end-of-history audit: {d}"), finish);
            }
        }
        if (p.vacuum_end || p.reopen_end) && ex.model.sessions.is_empty() {
            // these oracles run on a copy of the model so that the state key is that of the history itself
            let saved = ex.model.clone();
            if p.vacuum_end {
                if let StepVerdict::Diverged(d) = ex.step(&Op::Vacuum, rcfg) {
                    return judge_divergence(&mut ex, rep, format!("end-of-history vacuum: {d}"), finish);
                }
                if !ex.model.tainted() {
                    if let StepVerdict::Diverged(d) = ex.step(&Op::Audit, rcfg) {
                        return judge_divergence(&mut ex, rep, format!("audit after end-of-history vacuum: {d}"), finish);
                    }
                }
            }
            if p.reopen_end && !ex.model.tainted() {
                if let StepVerdict::Diverged(d) = ex.step(&Op::Reopen, rcfg) {
                    return judge_divergence(&mut ex, rep, format!("end-of-history reopen: {d}"), finish);
                }
                if let StepVerdict::Diverged(d) = ex.step(&Op::Audit, rcfg) {
                    return judge_divergence(&mut ex, rep, format!("audit after end-of-history reopen: {d}"), finish);
                }
            }
            let tainted_by_oracle = ex.model.tainted();
            let taint = ex.model.taint.clone();
            ex.model = saved;
            if tainted_by_oracle {
                // the end oracle itself hit a listed hazard (e.g. vacuum after a rolled-back delete)
                rep.findings = taint;
                rep.status = "tainted".into();
                rep.stop = false;
                finish(&ex, &mut rep);
                // the history itself is still a legitimate state to extend
                rep.status = "ok".into();
                return rep;
            }
        }
    }
    if ex.model.quirks.is_empty() {
        rep.status = "ok".into();
    } else {
        // the engine behaved exactly as a listed finding says (and as the model, following it, predicted)
        rep.status = "known".into();
        rep.findings = ex.model.quirks.clone();
        rep.detail = format!("listed finding re-observed exactly as recorded\n{}", ex.log.join("\n"));
        rep.stop = false;
    }
    finish(&ex, &mut rep);
    rep
}

fn judge_divergence(ex: &mut Exec, mut rep: StepReport, d: String, finish: impl Fn(&Exec, &mut StepReport)) -> StepReport {
    // listed C10 finding: rebalancing cannot place a divider in a parent page that lacks the room; the statement fails
    // with this storage error and the tree is left half-rebalanced, so the history is not judged further
    let divider = "KT-divider-does-not-fit-parent";
    if d.contains("Attempted to insert with overflow on a btreepage") && ex.model.enabled_hazards.contains(divider) {
        rep.status = "known".into();
        rep.findings = vec![divider.to_string()];
        rep.detail = format!("{d}\n{}", ex.log.join("\n"));
        rep.stop = true;
        finish(ex, &mut rep);
        return rep;
    }
    // listed C11 finding, downstream effect at SQL level (the one the property text itself describes): a divider that
    // aliases the overflow chain of a leaf cell keeps pointing at the chain after an UPDATE / DELETE released it; once
    // the pages are reused (a new table's root, another row's chain) a descent that compares through the divider reads
    // a page of the wrong kind. Only histories that hold a multi-page row and have already released a chain qualify.
    let alias = "KT-separator-aliases-overflow-chain";
    if (d.contains("Expected overflow frame") || d.contains("Expected btreepage frame")) && ex.model.enabled_hazards.contains(alias) {
        let big_row = ex.log.iter().any(|l| l.contains("(x9000)") || l.contains("(x20000)") || l.contains("(x6000)"));
        let released = ex.log.iter().any(|l| l.contains("UPDATE ") || l.contains("DELETE ") || l.contains("DROP TABLE"));
        if big_row && released {
            rep.status = "known".into();
            rep.findings = vec![alias.to_string()];
            rep.detail = format!("{d}\n{}", ex.log.join("\n"));
            rep.stop = true;
            finish(ex, &mut rep);
            return rep;
        }
    }
    // listed C05 finding: one log record carries the whole stored tuple before and after, and cannot exceed a log block
    let big = "KT-log-record-exceeds-block";
    if d.contains("exceeds maximum block capacity") && ex.model.enabled_hazards.contains(big) {
        rep.status = "known".into();
        rep.findings = vec![big.to_string()];
        rep.detail = format!("{d}\n{}", ex.log.join("\n"));
        rep.stop = true;
        finish(ex, &mut rep);
        return rep;
    }
    rep.status = "violation".into();
    rep.detail = format!("{d}\n{}", ex.log.join("\n"));
    rep.stop = true;
    finish(ex, &mut rep);
    rep
}

/// Worker entry: run, and confirm failures by two more runs from scratch.
pub fn worker(params: &Value, case: &Value) -> Value {
    let p: SeqParams = serde_json::from_value(params.clone()).expect("seq params");
    let hist: Vec<usize> = serde_json::from_value(case["hist"].clone()).expect("hist");
    let mut rep = run_once(&p, &hist);
    if rep.status == "violation" {
        let first_line = crate::explore::failure_signature;
        let mut n = 0;
        for _ in 0..2 {
            let r2 = run_once(&p, &hist);
            if r2.status == "violation" && first_line(&r2.detail) == first_line(&rep.detail) {
                n += 1;
            }
        }
        rep.reproduced = n;
    }
    serde_json::to_value(rep).unwrap()
}
