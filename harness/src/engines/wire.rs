//! `wire` engine (C20): exhaustive enumeration of bounded message shapes and of short / mutated
//! byte strings against the public codec and framing API (`axmosdb::tcp`).

use axmosdb::tcp::{self, Request, Response};
use serde::{Deserialize, Serialize};
use serde_json::{json, Value};
use std::io::Cursor;

const STRS: [&str; 6] = ["", "a", "é", "__300__", "a\u{0}b", "__70000__"];
fn s(i: usize) -> String {
    match STRS[i] {
        "__300__" => "q".repeat(300),
        "__70000__" => "z".repeat(70_000),
        x => x.to_string(),
    }
}
const INTS: [u64; 5] = [0, 1, 0xFFFF_FFFF, 0x1_0000_0000, u64::MAX];
fn floats() -> Vec<f64> {
    vec![0.0, -0.0, 1.5, f64::NAN, f64::INFINITY, f64::NEG_INFINITY, f64::from_bits(1)]
}

/// Every Request of the bounded shape.
pub fn all_requests() -> Vec<Request> {
    let mut v = vec![];
    for i in 0..STRS.len() {
        v.push(Request::Create(s(i)));
        v.push(Request::Open(s(i)));
        v.push(Request::Sql(s(i)));
        v.push(Request::Explain(s(i)));
    }
    for f in floats() {
        for n in INTS {
            v.push(Request::Analyze { sample_rate: f, max_sample_rows: n as usize });
        }
    }
    v.extend([Request::Begin, Request::Rollback, Request::Commit, Request::Vacuum, Request::Close, Request::Ping, Request::Shutdown]);
    v
}

/// Every Response of the bounded shape. `small` leaves out the 70 000-byte string and the 6-letter cell alphabet.
pub fn all_responses(small: bool) -> Vec<Response> {
    let mut v = vec![];
    let ns = if small { STRS.len() - 1 } else { STRS.len() };
    for i in 0..ns {
        v.push(Response::Ok(s(i)));
        v.push(Response::Error(s(i)));
        v.push(Response::Ddl(s(i)));
        v.push(Response::Explain(s(i)));
    }
    for n in INTS {
        v.push(Response::RowsAffected(n));
    }
    for a in INTS {
        for b in INTS {
            for c in INTS {
                v.push(Response::VacuumComplete { tables_vacuumed: a as usize, bytes_freed: b as usize, transactions_cleaned: c as usize });
            }
        }
    }
    v.extend([Response::SessionStarted, Response::SessionEnd, Response::Pong, Response::Goodbye, Response::ShuttingDown]);
    // result sets r x c, r,c in 0..=3: every assignment of {"", "é"} to the c headers and r*c cells
    for c in 0..=3usize {
        for r in 0..=3usize {
            let n = c + r * c;
            for mask in 0..(1u32 << n) {
                let cell = |k: usize| if (mask >> k) & 1 == 1 { "é".to_string() } else { String::new() };
                let columns: Vec<String> = (0..c).map(cell).collect();
                let data: Vec<Vec<String>> = (0..r).map(|ri| (0..c).map(|ci| cell(c + ri * c + ci)).collect()).collect();
                v.push(Response::Rows { columns, data });
            }
        }
    }
    if !small {
        // every assignment of the full string alphabet (without the 70 000-byte one) where headers+cells <= 4
        for c in 0..=3usize {
            for r in 0..=3usize {
                let n = c + r * c;
                if n == 0 || n > 4 {
                    continue;
                }
                let base = 5usize;
                for code in 0..base.pow(n as u32) {
                    let cell = |k: usize| s((code / base.pow(k as u32)) % base);
                    let columns: Vec<String> = (0..c).map(cell).collect();
                    let data: Vec<Vec<String>> = (0..r).map(|ri| (0..c).map(|ci| cell(c + ri * c + ci)).collect()).collect();
                    v.push(Response::Rows { columns, data });
                }
            }
        }
    }
    v
}

/// A reader that hands out at most `chunk` bytes per call (a socket delivering a frame in pieces).
struct Chunked {
    data: Vec<u8>,
    pos: usize,
    chunk: usize,
}
impl std::io::Read for Chunked {
    fn read(&mut self, buf: &mut [u8]) -> std::io::Result<usize> {
        let n = buf.len().min(self.chunk).min(self.data.len() - self.pos);
        buf[..n].copy_from_slice(&self.data[self.pos..self.pos + n]);
        self.pos += n;
        Ok(n)
    }
}

/// The framed bytes must be received intact whatever the sizes of the pieces the reader delivers.
fn short_reads(pipe: &[u8], body: &[u8]) -> Result<(), String> {
    for chunk in [1usize, 2, 3, 7, 4096, 8192] {
        // two frames back to back, so that a reader that leaves bytes behind desynchronises
        let mut two = pipe.to_vec();
        two.extend_from_slice(pipe);
        let mut r = Chunked { data: two, pos: 0, chunk };
        for nth in 0..2 {
            let got = catch(|| tcp::read_message(&mut r))?.map_err(|e| format!("read_message failed with a reader delivering {chunk} byte(s) per call (frame #{nth}): {e}"))?;
            if got != body {
                return Err(format!("frame #{nth} not received as sent when the reader delivers {chunk} byte(s) per call ({} of {} bytes equal)", got.iter().zip(body.iter()).take_while(|(a, b)| a == b).count(), body.len()));
            }
        }
    }
    Ok(())
}

fn catch<T>(f: impl FnOnce() -> T) -> Result<T, String> {
    std::panic::catch_unwind(std::panic::AssertUnwindSafe(f)).map_err(|_| format!("PANIC: {}", crate::sqldrv::last_panic()))
}

fn hex(b: &[u8]) -> String {
    let mut s: String = b.iter().take(48).map(|x| format!("{x:02x}")).collect();
    if b.len() > 48 {
        s.push_str(&format!("…({}B)", b.len()));
    }
    s
}

/// Round trip of one request through codec and framing. Returns Err(description) on any deviation.
fn roundtrip_request(m: &Request) -> Result<(), String> {
    let bytes = catch(|| m.to_bytes())?;
    let back = catch(|| Request::from_bytes(&bytes))?.map_err(|e| format!("decode of own encoding failed: {e}"))?;
    let again = back.to_bytes();
    if again != bytes {
        return Err(format!("re-encoding differs: {} vs {}", hex(&bytes), hex(&again)));
    }
    // framing over an in-memory pipe
    let mut pipe: Vec<u8> = vec![];
    catch(|| tcp::send_request(&mut pipe, m))?.map_err(|e| format!("send_request failed: {e}"))?;
    short_reads(&pipe, &bytes)?;
    let mut cur = Cursor::new(pipe);
    let got = catch(|| tcp::recv_request(&mut cur))?.map_err(|e| format!("recv_request failed: {e}"))?;
    if got.to_bytes() != bytes {
        return Err("framed round trip changed the message".into());
    }
    if cur.position() as usize != cur.get_ref().len() {
        return Err("framed read left bytes behind".into());
    }
    Ok(())
}

fn roundtrip_response(m: &Response) -> Result<(), String> {
    let bytes = catch(|| m.to_bytes())?;
    let back = catch(|| Response::from_bytes(&bytes))?.map_err(|e| format!("decode of own encoding failed: {e}"))?;
    let again = back.to_bytes();
    if again != bytes {
        return Err(format!("re-encoding differs: {} vs {}", hex(&bytes), hex(&again)));
    }
    // structural check where it is meaningful (Response has no PartialEq)
    if format!("{:?}", back) != format!("{:?}", m) {
        return Err(format!("decoded value differs structurally: sent {:.200?} got {:.200?}", m, back));
    }
    let mut pipe: Vec<u8> = vec![];
    catch(|| tcp::send_response(&mut pipe, m))?.map_err(|e| format!("send_response failed: {e}"))?;
    short_reads(&pipe, &bytes)?;
    let mut cur = Cursor::new(pipe);
    let got = catch(|| tcp::recv_response(&mut cur))?.map_err(|e| format!("recv_response failed: {e}"))?;
    if got.to_bytes() != bytes {
        return Err("framed round trip changed the message".into());
    }
    Ok(())
}

/// Feed arbitrary bytes to both decoders and to the frame reader. Garbage must yield Err or a value
/// that is stable under re-encoding; never a panic. (Hangs and unbounded allocations kill the worker.)
fn garbage(b: &[u8]) -> Result<u8, String> {
    let mut accepted = 0u8;
    match catch(|| Request::from_bytes(b))? {
        Ok(v) => {
            accepted |= 1;
            let e = v.to_bytes();
            let v2 = Request::from_bytes(&e).map_err(|x| format!("Request accepted from {} but its re-encoding is rejected: {x}", hex(b)))?;
            if v2.to_bytes() != e {
                return Err(format!("Request decoded from {} is not stable under re-encoding", hex(b)));
            }
        }
        Err(_) => {}
    }
    match catch(|| Response::from_bytes(b))? {
        Ok(v) => {
            accepted |= 2;
            let e = v.to_bytes();
            let v2 = Response::from_bytes(&e).map_err(|x| format!("Response accepted from {} but its re-encoding is rejected: {x}", hex(b)))?;
            if v2.to_bytes() != e {
                return Err(format!("Response decoded from {} is not stable under re-encoding", hex(b)));
            }
        }
        Err(_) => {}
    }
    let mut cur = Cursor::new(b.to_vec());
    match catch(|| tcp::read_message(&mut cur))? {
        Ok(m) => {
            accepted |= 4;
            if b.len() < 4 || m.len() != u32::from_le_bytes(b[0..4].try_into().unwrap()) as usize || m[..] != b[4..4 + m.len()] {
                return Err(format!("read_message returned bytes that are not the frame body for {}", hex(b)));
            }
        }
        Err(_) => {}
    }
    Ok(accepted)
}

/// A strict prefix of a canonical encoding must be rejected (or be a canonical message itself).
fn truncated(full: &[u8], cut: usize, is_request: bool) -> Result<(), String> {
    let p = &full[..cut];
    if is_request {
        if let Ok(v) = catch(|| Request::from_bytes(p))? {
            if v.to_bytes() != p {
                return Err(format!("truncated request {} (cut at {cut} of {}) accepted as {:.120?}", hex(p), full.len(), v));
            }
        }
    } else if let Ok(v) = catch(|| Response::from_bytes(p))? {
        if v.to_bytes() != p {
            return Err(format!("truncated response {} (cut at {cut} of {}) accepted as {:.120?}", hex(p), full.len(), v));
        }
    }
    Ok(())
}

#[derive(Debug, Clone, Serialize, Deserialize)]
pub struct Chunk {
    pub group: String,
    pub start: u64,
    pub end: u64,
    /// evaluate one input at a time and name it (used to pin down a process death)
    #[serde(default)]
    pub single: bool,
    #[serde(default)]
    pub side: String,
}

#[derive(Debug, Clone, Default, Serialize, Deserialize)]
pub struct ChunkReport {
    pub evaluations: u64,
    pub nontrivial: u64,
    pub failures: Vec<String>,
    pub sample: String,
}

fn limit_address_space() {
    static ONCE: std::sync::Once = std::sync::Once::new();
    ONCE.call_once(|| unsafe {
        let lim = libc::rlimit { rlim_cur: 6 << 30, rlim_max: 6 << 30 };
        libc::setrlimit(libc::RLIMIT_AS, &lim);
    });
}

/// positions of u32 fields that are length/count fields in a canonical encoding
fn length_fields_request(m: &Request) -> Vec<usize> {
    match m {
        Request::Create(_) | Request::Open(_) | Request::Sql(_) | Request::Explain(_) => vec![2],
        _ => vec![],
    }
}
fn length_fields_response(m: &Response) -> Vec<usize> {
    match m {
        Response::Ok(_) | Response::Error(_) | Response::Ddl(_) | Response::Explain(_) => vec![2],
        Response::Rows { columns, data } => {
            let mut v = vec![2];
            let mut off = 6;
            for c in columns {
                v.push(off);
                off += 4 + c.len();
            }
            v.push(off);
            off += 4;
            for r in data {
                for c in r {
                    v.push(off);
                    off += 4 + c.len();
                }
            }
            v
        }
        _ => vec![],
    }
}

// ---------------------------------------------------------------------------------------------------------------
// server level: result sets as the SERVER BINARY renders them (query_result_to_response) and the client decodes them

pub fn server_setup() -> Vec<String> {
    vec![
        "CREATE TABLE t (k INT, v INT, s TEXT)".into(),
        "INSERT INTO t VALUES (1, 10, 'ann'), (2, NULL, 'bob'), (3, 30, NULL)".into(),
        "CREATE TABLE u (k INT, w INT)".into(),
        "INSERT INTO u VALUES (1, 100), (2, 200), (2, 201)".into(),
    ]
}

/// Every select list of length 1..=3 over the columns (with repetition, so neighbouring and non-neighbouring columns
/// of the same name occur), over three row sets; the same over a join with both tables' key column; aliases that
/// collide; star over a join; aggregates; then DML, DDL and failing statements.
pub fn server_queries() -> Vec<String> {
    let mut q = vec![];
    let cols = ["k", "v", "s"];
    let mut lists: Vec<Vec<&str>> = vec![];
    for a in cols {
        lists.push(vec![a]);
        for b in cols {
            lists.push(vec![a, b]);
            for c in cols {
                lists.push(vec![a, b, c]);
            }
        }
    }
    for wh in ["", " WHERE k = 2", " WHERE k = 99"] {
        for l in &lists {
            q.push(format!("SELECT {} FROM t{wh}", l.join(", ")));
        }
    }
    let jcols = ["t.k", "u.k", "t.s", "u.w"];
    for a in jcols {
        for b in jcols {
            q.push(format!("SELECT {a}, {b} FROM t JOIN u ON t.k = u.k"));
            for c in jcols {
                q.push(format!("SELECT {a}, {b}, {c} FROM t JOIN u ON t.k = u.k"));
            }
        }
    }
    q.extend(
        [
            "SELECT * FROM t",
            "SELECT * FROM t JOIN u ON t.k = u.k",
            "SELECT * FROM u JOIN t ON t.k = u.k",
            "SELECT k AS x, v AS x FROM t",
            "SELECT k AS x, s, v AS x FROM t",
            "SELECT k, k + 0, k FROM t",
            "SELECT COUNT(*) FROM t",
            "SELECT COUNT(*), COUNT(*) FROM t",
            "SELECT v, COUNT(*) FROM t GROUP BY v",
            "SELECT k FROM t ORDER BY k DESC",
            "SELECT nosuch FROM t",
            "SELECT * FROM nosuch",
            "SELEC",
            "",
            "INSERT INTO u VALUES (5, 500)",
            "UPDATE u SET w = 1 WHERE k = 5",
            "DELETE FROM u WHERE k = 5",
            "DELETE FROM u WHERE k = 77",
            "CREATE TABLE z (a INT)",
            "CREATE TABLE z (a INT)",
            "DROP TABLE z",
            "SELECT k, k FROM u",
        ]
        .iter()
        .map(|s| s.to_string()),
    );
    q
}

fn server_bin() -> std::path::PathBuf {
    std::env::var("VERIF_SERVER_BIN").map(Into::into).unwrap_or_else(|_| crate::findings::verif_root().join(".target-server/debug/axmos-server"))
}

fn render(r: Result<axmosdb::runtime::QueryResult, String>) -> Response {
    use axmosdb::runtime::QueryResult;
    match r {
        Ok(QueryResult::Rows(rows)) => {
            // the rendering the protocol promises: one header entry per output column, one cell per column per row
            let columns: Vec<String> = if rows.is_empty() { vec![] } else { (0..rows.num_columns()).map(|i| rows.column(i).map(|c| c.to_string()).unwrap_or_default()).collect() };
            let data: Vec<Vec<String>> = rows.iterrows().map(|row| row.iter().map(|v| v.to_string()).collect()).collect();
            Response::Rows { columns, data }
        }
        Ok(QueryResult::RowsAffected(n)) => Response::RowsAffected(n),
        Ok(QueryResult::Ddl(o)) => Response::Ddl(format!("{:?}", o)),
        Err(e) => Response::Error(e),
    }
}

fn same_response(got: &Response, want: &Response, ordered: bool) -> Result<(), String> {
    match (got, want) {
        (Response::Rows { columns: gc, data: gd }, Response::Rows { columns: wc, data: wd }) => {
            if let Some(r) = gd.iter().find(|r| r.len() != gc.len()) {
                return Err(format!("decoded result set is not rectangular: header has {} columns, a row has {} cells", gc.len(), r.len()));
            }
            if gc != wc {
                return Err(format!("header {:?} arrived, the statement's output columns are {:?}", gc, wc));
            }
            let (mut gs, mut ws) = (gd.clone(), wd.clone());
            if !ordered {
                // without ORDER BY the row order is the engine's business (hash aggregation differs from run to run)
                gs.sort();
                ws.sort();
            }
            if gs != ws {
                return Err(format!("rows {:?} arrived, the statement returns {:?}", gd.iter().take(4).collect::<Vec<_>>(), wd.iter().take(4).collect::<Vec<_>>()));
            }
            Ok(())
        }
        (Response::RowsAffected(a), Response::RowsAffected(b)) if a == b => Ok(()),
        (Response::Ddl(_), Response::Ddl(_)) => Ok(()),
        (Response::Error(_), Response::Error(_)) => Ok(()),
        (g, w) => Err(format!("response {:.150?} arrived, expected {:.150?}", g, w)),
    }
}

/// One server process per chunk: the real `axmos-server` binary on a free port, a client over TCP, and an in-process
/// database that receives the same statements (differential oracle).
fn run_server_chunk(c: &Chunk, rep: &mut ChunkReport) {
    use std::io::{BufReader, BufWriter};
    let bin = server_bin();
    if !bin.exists() {
        rep.failures.push(format!("machinery: server binary {} not built (./check builds it for C20)", bin.display()));
        return;
    }
    let dir = crate::sqldrv::fresh_dir("srv");
    let port = match std::net::TcpListener::bind("127.0.0.1:0").and_then(|l| l.local_addr()) {
        Ok(a) => a.port(),
        Err(e) => {
            rep.failures.push(format!("machinery: no free port: {e}"));
            return;
        }
    };
    let mut child = match std::process::Command::new(&bin).args(["-p", &port.to_string()]).stdout(std::process::Stdio::null()).stderr(std::process::Stdio::null()).spawn() {
        Ok(c) => c,
        Err(e) => {
            rep.failures.push(format!("machinery: cannot start the server: {e}"));
            return;
        }
    };
    let mut stream = None;
    for _ in 0..100 {
        if let Ok(s) = std::net::TcpStream::connect(("127.0.0.1", port)) {
            stream = Some(s);
            break;
        }
        std::thread::sleep(std::time::Duration::from_millis(50));
    }
    let Some(stream) = stream else {
        let _ = child.kill();
        rep.failures.push("machinery: the server did not accept a connection within 5 s".into());
        return;
    };
    let _ = stream.set_read_timeout(Some(std::time::Duration::from_secs(30)));
    let mut rd = BufReader::new(stream.try_clone().expect("clone"));
    let mut wr = BufWriter::new(stream);
    let mut call = |req: Request| -> Result<Response, String> {
        tcp::send_request(&mut wr, &req).map_err(|e| format!("send: {e}"))?;
        use std::io::Write;
        wr.flush().map_err(|e| format!("flush: {e}"))?;
        tcp::recv_response(&mut rd).map_err(|e| format!("receive/decode: {e}"))
    };
    let outcome = (|| -> Result<(), String> {
        match call(Request::Create(dir.join("server.db").to_string_lossy().to_string()))? {
            Response::Ok(_) => {}
            other => return Err(format!("machinery: CREATE over the wire answered {:.100?}", other)),
        }
        let local = axmosdb::Database::create(dir.join("local.db"), axmosdb::DBConfig::default()).map_err(|e| format!("machinery: local create: {e}"))?;
        for sql in server_setup() {
            let got = call(Request::Sql(sql.clone()))?;
            let want = render(local.execute(&sql).map_err(|e| e.to_string()));
            same_response(&got, &want, false).map_err(|e| format!("setup `{sql}`: {e}"))?;
        }
        let qs = server_queries();
        // statements before the chunk that change data are replayed on both sides so that every chunk sees the same state
        for (i, sql) in qs.iter().enumerate() {
            let i = i as u64;
            if i >= c.end {
                break;
            }
            let changes = !sql.trim_start().to_ascii_uppercase().starts_with("SELECT");
            if i < c.start && !changes {
                continue;
            }
            let got = call(Request::Sql(sql.clone()));
            let want = render(local.execute(sql).map_err(|e| e.to_string()));
            if i < c.start {
                continue;
            }
            rep.evaluations += 1;
            rep.nontrivial += 1;
            if rep.sample.is_empty() {
                rep.sample = sql.clone();
            }
            match got {
                Ok(g) => {
                    if let Err(e) = same_response(&g, &want, sql.to_ascii_uppercase().contains("ORDER BY")) {
                        if rep.failures.len() < 5 {
                            rep.failures.push(format!("server `{sql}`: {e}"));
                        }
                    }
                }
                Err(e) => return Err(format!("server `{sql}`: {e}")),
            }
        }
        Ok(())
    })();
    if let Err(e) = outcome {
        if rep.failures.len() < 5 {
            rep.failures.push(e);
        }
    }
    let _ = call(Request::Shutdown);
    let _ = child.kill();
    let _ = child.wait();
    let _ = std::fs::remove_dir_all(&dir);
}

pub fn group_size(group: &str, thorough: bool) -> u64 {
    match group {
        "server-rows" => server_queries().len() as u64,
        "roundtrip-request" => all_requests().len() as u64,
        "roundtrip-response" => all_responses(!thorough).len() as u64,
        "bytes-le2" => 1 + 256 + 65536,
        "bytes-3" => {
            if thorough { 1 << 24 } else { 1 << 16 }
        }
        "mutate-request" => all_requests().iter().filter(|m| m.to_bytes().len() <= 64).count() as u64,
        "mutate-response" => all_responses(true).iter().filter(|m| m.to_bytes().len() <= if thorough { 64 } else { 40 }).count() as u64,
        "lengths-request" => all_requests().len() as u64,
        "lengths-response" => all_responses(true).len() as u64,
        "frame-limits" => 9,
        _ => 0,
    }
}

pub fn run_chunk(c: &Chunk, thorough: bool) -> ChunkReport {
    limit_address_space();
    let mut rep = ChunkReport::default();
    let mut fail = |rep: &mut ChunkReport, m: String| {
        if rep.failures.len() < 5 {
            rep.failures.push(m);
        }
    };
    match c.group.as_str() {
        "server-rows" => run_server_chunk(c, &mut rep),
        "roundtrip-request" => {
            let all = all_requests();
            for i in c.start..c.end.min(all.len() as u64) {
                rep.evaluations += 1;
                rep.nontrivial += 1;
                if let Err(e) = roundtrip_request(&all[i as usize]) {
                    fail(&mut rep, format!("request {:.120?}: {e}", all[i as usize]));
                }
            }
            rep.sample = format!("{:.100?}", all[(c.start as usize).min(all.len() - 1)]);
        }
        "roundtrip-response" => {
            let all = all_responses(!thorough);
            for i in c.start..c.end.min(all.len() as u64) {
                rep.evaluations += 1;
                rep.nontrivial += 1;
                if let Err(e) = roundtrip_response(&all[i as usize]) {
                    fail(&mut rep, format!("response {:.120?}: {e}", all[i as usize]));
                }
            }
            rep.sample = format!("{:.100?}", all[(c.start as usize).min(all.len() - 1)]);
        }
        "bytes-le2" => {
            for i in c.start..c.end {
                let b: Vec<u8> = if i == 0 {
                    vec![]
                } else if i <= 256 {
                    vec![(i - 1) as u8]
                } else {
                    let k = i - 257;
                    vec![(k >> 8) as u8, k as u8]
                };
                rep.evaluations += 1;
                match garbage(&b) {
                    Ok(a) => {
                        if a != 0 {
                            rep.nontrivial += 1;
                        }
                    }
                    Err(e) => fail(&mut rep, e),
                }
            }
            rep.sample = "all byte strings of length 0, 1 and 2".into();
        }
        "bytes-3" => {
            for i in c.start..c.end {
                let b: Vec<u8> = if thorough { vec![(i >> 16) as u8, (i >> 8) as u8, i as u8] } else { vec![tcp::PROTOCOL_VERSION, (i >> 8) as u8, i as u8] };
                rep.evaluations += 1;
                match garbage(&b) {
                    Ok(a) => {
                        if a != 0 {
                            rep.nontrivial += 1;
                        }
                    }
                    Err(e) => fail(&mut rep, e),
                }
            }
            rep.sample = if thorough { "all byte strings of length 3".into() } else { "all byte strings of length 3 that start with the protocol version byte".into() };
        }
        "mutate-request" | "mutate-response" => {
            let is_req = c.group == "mutate-request";
            let encs: Vec<Vec<u8>> = if is_req {
                all_requests().iter().map(|m| m.to_bytes()).filter(|b| b.len() <= 64).collect()
            } else {
                all_responses(true).iter().map(|m| m.to_bytes()).filter(|b| b.len() <= if thorough { 64 } else { 40 }).collect()
            };
            for i in c.start..c.end.min(encs.len() as u64) {
                let full = &encs[i as usize];
                for cut in 0..full.len() {
                    rep.evaluations += 1;
                    rep.nontrivial += 1;
                    if let Err(e) = truncated(full, cut, is_req) {
                        fail(&mut rep, e);
                    }
                }
                for pos in 0..full.len() {
                    for val in 0..=255u8 {
                        if val == full[pos] {
                            continue;
                        }
                        let mut b = full.clone();
                        b[pos] = val;
                        rep.evaluations += 1;
                        match garbage(&b) {
                            Ok(a) => {
                                if a != 0 {
                                    rep.nontrivial += 1;
                                }
                            }
                            Err(e) => fail(&mut rep, e),
                        }
                        // framed: the mutated body behind a correct length prefix
                        let mut framed = (b.len() as u32).to_le_bytes().to_vec();
                        framed.extend_from_slice(&b);
                        let mut cur = Cursor::new(framed);
                        let r = if is_req { catch(|| tcp::recv_request(&mut cur).map(|_| ())) } else { catch(|| tcp::recv_response(&mut cur).map(|_| ())) };
                        if let Err(e) = r {
                            fail(&mut rep, format!("framed mutated message {}: {e}", hex(&b)));
                        }
                    }
                }
            }
            rep.sample = format!("every strict prefix and every single-byte substitution of {}", encs.get(c.start as usize).map(|b| hex(b)).unwrap_or_default());
        }
        "lengths-request" | "lengths-response" => {
            let is_req = c.group == "lengths-request";
            let items: Vec<(Vec<u8>, Vec<usize>)> = if is_req {
                all_requests().iter().map(|m| (m.to_bytes(), length_fields_request(m))).collect()
            } else {
                all_responses(true).iter().map(|m| (m.to_bytes(), length_fields_response(m))).collect()
            };
            for i in c.start..c.end.min(items.len() as u64) {
                let (full, fields) = &items[i as usize];
                if full.len() > 4096 {
                    continue;
                }
                for &f in fields {
                    let orig = u32::from_le_bytes(full[f..f + 4].try_into().unwrap());
                    for nv in [0u32, orig.wrapping_sub(1), orig.wrapping_add(1), (1 << 24) + 1, 1 << 31, u32::MAX] {
                        if nv == orig {
                            continue;
                        }
                        let mut b = full.clone();
                        b[f..f + 4].copy_from_slice(&nv.to_le_bytes());
                        if c.single && !c.side.is_empty() {
                            let _ = std::fs::write(&c.side, format!("u32 length/count field at byte {f} of the canonical encoding {} set to {nv}", hex(full)));
                        }
                        rep.evaluations += 1;
                        rep.nontrivial += 1;
                        if let Err(e) = garbage(&b) {
                            fail(&mut rep, e);
                        }
                    }
                }
            }
            if !c.single {
                rep.sample = "each u32 length/count field of each canonical encoding set to 0, len-1, len+1, 2^24+1, 2^31, 2^32-1".into();
            }
        }
        "frame-limits" => {
            for i in c.start..c.end.min(9) {
                rep.evaluations += 1;
                rep.nontrivial += 1;
                let r: Result<(), String> = (|| {
                    match i {
                        0 => {
                            // a message of exactly MAX_MESSAGE_SIZE bytes travels intact
                            let body = "m".repeat(tcp::MAX_MESSAGE_SIZE - 6);
                            let m = Request::Sql(body);
                            if m.to_bytes().len() != tcp::MAX_MESSAGE_SIZE {
                                return Err("test construction: size".into());
                            }
                            roundtrip_request(&m)
                        }
                        1 => {
                            let m = Request::Sql("m".repeat(tcp::MAX_MESSAGE_SIZE - 5));
                            let mut pipe = vec![];
                            match tcp::send_request(&mut pipe, &m) {
                                Err(tcp::TcpError::MessageTooLarge(_)) => Ok(()),
                                other => Err(format!("a message of MAX_MESSAGE_SIZE+1 bytes was not refused by the writer: {:?}", other.map(|_| ()))),
                            }
                        }
                        2 => {
                            let mut frame = ((tcp::MAX_MESSAGE_SIZE + 1) as u32).to_le_bytes().to_vec();
                            frame.extend_from_slice(&[0u8; 16]);
                            match tcp::read_message(&mut Cursor::new(frame)) {
                                Err(tcp::TcpError::MessageTooLarge(_)) => Ok(()),
                                other => Err(format!("a frame header announcing MAX_MESSAGE_SIZE+1 bytes was not refused: {:?}", other.map(|v| v.len()))),
                            }
                        }
                        3 => {
                            // header announces more than is there
                            let mut frame = 100u32.to_le_bytes().to_vec();
                            frame.extend_from_slice(&[1u8; 10]);
                            match tcp::read_message(&mut Cursor::new(frame)) {
                                Err(_) => Ok(()),
                                Ok(v) => Err(format!("short frame accepted with {} bytes", v.len())),
                            }
                        }
                        4 => {
                            let m = Response::Explain("p".repeat(tcp::MAX_MESSAGE_SIZE - 6));
                            roundtrip_response(&m)
                        }
                        6 | 7 | 8 => {
                            // a REFUSED send must leave the stream exactly as it was: messages sent before and after it on
                            // the same writer arrive intact and in order (request direction, response direction, and with
                            // the refused message first)
                            let mut pipe = vec![];
                            let too_big_req = Request::Sql("m".repeat(tcp::MAX_MESSAGE_SIZE));
                            let too_big_resp = Response::Rows { columns: vec!["c".into()], data: vec![vec!["x".repeat(tcp::MAX_MESSAGE_SIZE)]] };
                            if i != 8 {
                                tcp::send_request(&mut pipe, &Request::Ping).map_err(|e| e.to_string())?;
                            }
                            let before = pipe.len();
                            let refused = if i == 7 { tcp::send_response(&mut pipe, &too_big_resp).is_err() } else { tcp::send_request(&mut pipe, &too_big_req).is_err() };
                            if !refused {
                                return Err("an over-large message was not refused by the writer".into());
                            }
                            if pipe.len() != before {
                                return Err(format!("a refused send wrote {} bytes into the stream", pipe.len() - before));
                            }
                            tcp::send_request(&mut pipe, &Request::Sql("after".into())).map_err(|e| e.to_string())?;
                            let mut cur = Cursor::new(pipe);
                            if i != 8 {
                                let a = tcp::recv_request(&mut cur).map_err(|e| format!("message before the refused one: {e}"))?;
                                if a != Request::Ping {
                                    return Err("message before the refused one arrived changed".into());
                                }
                            }
                            let b = tcp::recv_request(&mut cur).map_err(|e| format!("message after the refused one: {e}"))?;
                            if b != Request::Sql("after".into()) {
                                return Err("message after the refused one arrived changed".into());
                            }
                            Ok(())
                        }
                        _ => {
                            // two frames back to back are read one after the other
                            let mut pipe = vec![];
                            tcp::send_request(&mut pipe, &Request::Ping).map_err(|e| e.to_string())?;
                            tcp::send_request(&mut pipe, &Request::Sql("é".into())).map_err(|e| e.to_string())?;
                            let mut cur = Cursor::new(pipe);
                            let a = tcp::recv_request(&mut cur).map_err(|e| e.to_string())?;
                            let b = tcp::recv_request(&mut cur).map_err(|e| e.to_string())?;
                            if a != Request::Ping || b != Request::Sql("é".into()) {
                                return Err("back-to-back frames mixed up".into());
                            }
                            Ok(())
                        }
                    }
                })();
                if let Err(e) = r {
                    fail(&mut rep, format!("frame-limits case {i}: {e}"));
                }
            }
            rep.sample = "message of exactly MAX_MESSAGE_SIZE, one byte more (writer and reader), short frame, back-to-back frames, a refused send between two good ones".into();
        }
        _ => {}
    }
    rep
}

pub fn worker(params: &Value, case: &Value) -> Value {
    let thorough = params["thorough"].as_bool().unwrap_or(false);
    let c: Chunk = serde_json::from_value(case.clone()).expect("chunk");
    serde_json::to_value(run_chunk(&c, thorough)).unwrap()
}

pub fn params(thorough: bool) -> Value {
    json!({"thorough": thorough})
}
