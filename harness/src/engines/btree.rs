//! `btree` engine (C10, C11): operation sequences on the real B+tree over the real pager (through
//! the `verif` facade) against an ordered-map model, with a structural audit of the page graph and a
//! whole-file page-ownership audit after every operation. All invariants are evaluated here, from
//! raw page dumps; the facade only exports data.

use crate::explore::StepReport;
use crate::sqldrv::{fresh_dir, Cfg};
use axmosdb::verif::facade::{self, CellDump, Key, KeyKind, PageDump, TreeEnv, TreeHandle};
use serde::{Deserialize, Serialize};
use serde_json::Value;
use std::collections::{BTreeMap, BTreeSet};

#[derive(Debug, Clone, Copy, PartialEq, Eq, Serialize, Deserialize)]
pub enum Kind {
    BigUInt,
    Int,
    Text,
    IntText,
}

#[derive(Debug, Clone, Copy, PartialEq, Eq, PartialOrd, Ord, Serialize, Deserialize)]
#[derive(Hash)]
pub enum Sz {
    Tiny,     // 8 B
    S200,     // 200 B
    S300,     // 300 B
    Quarter,  // ~ page/4
    Third,    // ~ page/3
    OneHalf,  // 1.5 pages: overflow chain
    Three,    // 3 pages
    Ten,      // 10 pages: an overflow chain longer than a small cache
}

#[derive(Debug, Clone, PartialEq, Eq, Serialize, Deserialize)]
pub enum TOp {
    /// upsert
    Put(u8, Sz),
    Insert(u8, Sz),
    Update(u8, Sz),
    Remove(u8),
    /// operations on a second tree sharing the pager (C11)
    Put2(u8, Sz),
    Remove2(u8),
    /// free the whole second tree (as DROP TABLE does) and start a new one
    Dealloc2,
    /// insert `count` fresh consecutive keys into region 0 (below the seed keys' second key), 1 (middle) or 2 (above all)
    InsRun(u8, u8, Sz),
    /// remove the `count` smallest present keys of a region
    RemRun(u8, u8),
    /// grow the second tree by `count` fresh keys
    Grow2(u8, Sz),
    /// insert one fresh key just above seed key number `gap`
    InsAt(u8, Sz),
    /// seed: insert `count` keys numbered 100, 200, 300, ... (ascending, or descending if the flag is set)
    SeedRun(u16, Sz, bool),
    /// remove the `count` smallest present keys of a region through `Btree::remove_tuple` (the path VACUUM uses)
    RemRunT(u8, u8),
    /// Text trees only: three keys of exactly `len` bytes that share their first len-1 bytes ('k' repeated) and end
    /// in 'm', 'a', 'z' (inserted in that order; the last one with a 1.5-page payload): insert, lookup, ordered scan,
    /// duplicate rejection, absent neighbours, removal. Self-contained (does not use the numbered-key model).
    KeyLen(u16),
}

impl TOp {
    pub fn show(&self) -> String {
        match self {
            TOp::Put(k, s) => format!("put(k{k},{s:?})"),
            TOp::Insert(k, s) => format!("insert(k{k},{s:?})"),
            TOp::Update(k, s) => format!("update(k{k},{s:?})"),
            TOp::Remove(k) => format!("remove(k{k})"),
            TOp::Put2(k, s) => format!("tree2.put(k{k},{s:?})"),
            TOp::Remove2(k) => format!("tree2.remove(k{k})"),
            TOp::Dealloc2 => "tree2.dealloc+new".into(),
            TOp::InsRun(r, c, s) => format!("insert-run(region {r}, {c} keys, {s:?})"),
            TOp::RemRun(r, c) => format!("remove-run(region {r}, {c} keys)"),
            TOp::RemRunT(r, c) => format!("remove_tuple-run(region {r}, {c} keys)"),
            TOp::Grow2(c, s) => format!("tree2.insert-run({c} keys, {s:?})"),
            TOp::InsAt(g, s) => format!("insert-above-seed-key({g},{s:?})"),
            TOp::KeyLen(l) => format!("text-keys-of-{l}-bytes"),
            TOp::SeedRun(c, s, d) => format!("seed-run({c} keys, {s:?}{})", if *d { ", descending" } else { "" }),
        }
    }
}

#[derive(Debug, Clone, Serialize, Deserialize)]
pub struct BtParams {
    /// "C10": map + structure oracle decides; "C11": ownership oracle decides
    pub mode: String,
    pub cfg: Cfg,
    pub kind: Kind,
    pub prefix: Vec<TOp>,
    pub alphabet: Vec<TOp>,
    pub triggers: Vec<String>,
    /// audit after every operation of the seed prefix too (off for long prefixes: only at its end)
    #[serde(default)]
    pub audit_prefix: bool,
}

fn kkind(k: Kind) -> KeyKind {
    match k {
        Kind::BigUInt => KeyKind::BigUInt,
        Kind::Int => KeyKind::Int,
        Kind::Text => KeyKind::Text,
        Kind::IntText => KeyKind::IntText,
    }
}

/// key number -> actual key. Numbers below 100 are the small alphabet; seed key i is number 100 + 100*i;
/// run keys are the numbers in between (so they interleave with the seed keys).
pub fn key_of(kind: Kind, n: u32) -> Key {
    match kind {
        Kind::BigUInt => Key::U(if n < 100 { 5 + 10 * n as u64 } else { 10 * (n as u64 - 100) + 1000 }),
        Kind::Int => Key::I(if n < 100 { -25 + 10 * n as i32 } else { -20000 + 10 * (n as i32 - 100) }),
        Kind::Text => {
            // prefix-related keys: "", "a", "aa", "ab", "b", ...
            const T: [&str; 10] = ["", "a", "aa", "ab", "b", "ba", "c", "cc", "ccc", "d"];
            if n < 100 { Key::T(T[n as usize % 10].to_string()) } else { Key::T(format!("b{:06}", n)) }
        }
        Kind::IntText => {
            const T: [&str; 5] = ["", "a", "ab", "b", "z"];
            if n < 100 { Key::IT(-1 + (n as i32 / 5) * 2, T[n as usize % 5].to_string()) } else { Key::IT(-1 + (n as i32 / 1000), format!("s{:04}", n % 1000)) }
        }
    }
}

pub fn key_cmp(a: &Key, b: &Key) -> std::cmp::Ordering {
    match (a, b) {
        (Key::U(x), Key::U(y)) => x.cmp(y),
        (Key::I(x), Key::I(y)) => x.cmp(y),
        (Key::T(x), Key::T(y)) => x.as_bytes().cmp(y.as_bytes()),
        (Key::IT(x1, x2), Key::IT(y1, y2)) => x1.cmp(y1).then(x2.as_bytes().cmp(y2.as_bytes())),
        _ => std::cmp::Ordering::Equal,
    }
}

fn payload(page: usize, key: u32, sz: Sz, stamp: u32) -> Vec<u8> {
    let len = match sz {
        Sz::Tiny => 8,
        Sz::S200 => 200,
        Sz::S300 => 300,
        Sz::Quarter => page / 4 - 96,
        Sz::Third => page / 3 - 96,
        Sz::OneHalf => page + page / 2,
        Sz::Three => 3 * page,
        Sz::Ten => 10 * page,
    };
    let mut v = vec![0u8; len];
    for (i, b) in v.iter_mut().enumerate() {
        *b = (key as usize * 31 + stamp as usize * 7 + i) as u8;
    }
    v
}

/// see `TOp::KeyLen`
fn key_len_case(env: &TreeEnv, t: &TreeHandle, len: usize, page: usize) -> Result<(), String> {
    let len = len.max(1);
    let mk = |c: char| Key::T(format!("{}{}", "k".repeat(len - 1), c));
    let pay = |c: char| -> Vec<u8> {
        let n = if c == 'z' { page + page / 2 } else { 8 };
        (0..n).map(|i| (i as u8).wrapping_mul(7).wrapping_add(c as u8)).collect()
    };
    for c in ['m', 'a', 'z'] {
        env.insert(t, &mk(c), &pay(c), 1).map_err(|e| format!("insert of the {len}-byte key ending in '{c}' failed: {e}"))?;
    }
    for c in ['a', 'm', 'z'] {
        match env.search(t, &mk(c)).map_err(|e| format!("lookup of the {len}-byte key ending in '{c}' failed: {e}"))? {
            Some(p) if p == pay(c) => {}
            Some(p) => return Err(format!("lookup of the {len}-byte key ending in '{c}' returns a {}-byte payload that differs from the one stored", p.len())),
            None => return Err(format!("lookup of the {len}-byte key ending in '{c}': not found right after its insert")),
        }
    }
    let scan = env.scan(t).map_err(|e| format!("scan with {len}-byte keys failed: {e}"))?;
    let got: Vec<&Key> = scan.iter().map(|e| &e.0).collect();
    let want = [mk('a'), mk('m'), mk('z')];
    if got != want.iter().collect::<Vec<_>>() {
        let tails: Vec<String> = scan.iter().map(|e| if let Key::T(s) = &e.0 { format!("{}B..{:?}", s.len(), s.chars().last()) } else { "?".into() }).collect();
        return Err(format!("scan with {len}-byte keys returns {} entries {:?}, expected the keys ending in a, m, z in this order", scan.len(), tails));
    }
    for (e, c) in scan.iter().zip(['a', 'm', 'z']) {
        if e.1 != pay(c) {
            return Err(format!("scan returns a wrong payload for the {len}-byte key ending in '{c}'"));
        }
    }
    for c in ['m', 'a', 'z'] {
        if env.insert(t, &mk(c), &pay('m'), 1).is_ok() {
            return Err(format!("second insert of the stored {len}-byte key ending in '{c}' was accepted"));
        }
    }
    for absent in [mk('b'), mk('y'), Key::T("k".repeat(len - 1)), Key::T("k".repeat(len))] {
        if let Some(_) = env.search(t, &absent).map_err(|e| format!("lookup of an absent {len}-byte neighbour failed: {e}"))? {
            return Err(format!("lookup of an ABSENT key next to the {len}-byte keys finds an entry"));
        }
    }
    env.remove(t, &mk('m')).map_err(|e| format!("remove of the {len}-byte key ending in 'm' failed: {e}"))?;
    if env.search(t, &mk('m')).map_err(|e| format!("lookup after remove failed: {e}"))?.is_some() {
        return Err(format!("the removed {len}-byte key ending in 'm' is still found"));
    }
    let scan = env.scan(t).map_err(|e| format!("scan after remove failed: {e}"))?;
    if scan.iter().map(|e| &e.0).collect::<Vec<_>>() != [mk('a'), mk('z')].iter().collect::<Vec<_>>() {
        return Err(format!("scan after removing the middle {len}-byte key returns {} entries", scan.len()));
    }
    // leave the tree empty (the numbered-key model of the generic oracle knows nothing of these keys)
    for c in ['z', 'a'] {
        env.remove(t, &mk(c)).map_err(|e| format!("remove of the {len}-byte key ending in '{c}' failed: {e}"))?;
    }
    if !env.scan(t).map_err(|e| format!("scan of the emptied tree failed: {e}"))?.is_empty() {
        return Err(format!("the tree is not empty after removing all three {len}-byte keys"));
    }
    Ok(())
}

/// Engine panics must not take the worker down: they are observations.
fn guard<T>(f: impl FnOnce() -> Result<T, String>) -> Result<T, String> {
    match std::panic::catch_unwind(std::panic::AssertUnwindSafe(f)) {
        Ok(r) => r,
        Err(_) => Err(format!("PANIC inside the engine: {}", crate::sqldrv::last_panic())),
    }
}

struct TreeState {
    handle: TreeHandle,
    model: BTreeMap<u32, (Sz, Vec<u8>)>,
    /// every key number ever used on this tree (probed after each operation)
    touched: BTreeSet<u32>,
    seed_n: u32,
    run_off: [u32; 3],
}

/// C11 with the listed separator-alias finding: an interior separator is a byte copy of a leaf cell including its
/// overflow pointer. With the flag set the audit treats that copy as what it is - a NON-owning alias: the chain is
/// owned by the leaf cell alone (exact quirk). Everything else is still demanded: every page has exactly one owner
/// among tree nodes, chains of LEAF cells and the free list. (Thread-local: workers run one case at a time.)
thread_local! {
    static ALIAS_QUIRK: std::cell::Cell<bool> = const { std::cell::Cell::new(false) };
    static ALIAS_PAGES: std::cell::Cell<usize> = const { std::cell::Cell::new(0) };
}

pub struct Audit {
    pub alias_pages: usize,
    pub structure: Vec<String>,
    pub ownership: Vec<String>,
    pub digest: String,
    pub pages_tree: usize,
    pub pages_overflow: usize,
    pub pages_free: usize,
    pub height: usize,
    pub total_pages: u64,
    pub free: Vec<u64>,
}

fn cell_key(env: &TreeEnv, t: &TreeHandle, c: &CellDump) -> Result<Key, String> {
    let full = guard(|| env.full_payload(c))?;
    guard(|| env.decode_key(t, &full))
}

/// Walk one tree from its root. Returns (leaves in order with their keys, depth of each leaf).
#[allow(clippy::too_many_arguments)]
fn walk(
    env: &TreeEnv,
    t: &TreeHandle,
    id: u64,
    depth: usize,
    lo: Option<&Key>,
    hi: Option<&Key>,
    owners: &mut BTreeMap<u64, Vec<String>>,
    leaves: &mut Vec<(u64, usize, Vec<Key>, Option<u64>, Option<u64>)>,
    problems: &mut Vec<String>,
    digest: &mut String,
    n_tree: &mut usize,
    n_ovf: &mut usize,
    is_root: bool,
) {
    if depth > 12 {
        problems.push(format!("tree deeper than 12 levels at page {id} (cycle?)"));
        return;
    }
    let tag = format!("tree@{}", t.root);
    owners.entry(id).or_default().push(format!("node of {tag}"));
    if owners[&id].len() > 1 {
        // do not descend twice into a shared page
        return;
    }
    *n_tree += 1;
    let p: PageDump = match guard(|| facade::dump_btree_page(env.pager(), id)) {
        Ok(p) => p,
        Err(e) => {
            problems.push(format!("page {id} (depth {depth}) cannot be read as a tree page: {e}"));
            return;
        }
    };
    if p.id != id {
        problems.push(format!("page {id} carries page number {} in its header", p.id));
    }
    digest.push_str(&format!("[{id}:{}{}|", if p.is_leaf { "L" } else { "I" }, p.num_slots));
    let mut keys: Vec<Key> = vec![];
    for (i, c) in p.cells.iter().enumerate() {
        match cell_key(env, t, c) {
            Ok(k) => keys.push(k),
            Err(e) => {
                problems.push(format!("page {id} cell {i}: key cannot be decoded: {e}"));
                return;
            }
        }
        if c.is_overflow && !p.is_leaf && ALIAS_QUIRK.with(|q| q.get()) {
            // non-owning alias of a leaf cell's chain (or a dangling pointer to a chain that was released with its leaf cell)
            let n = guard(|| env.overflow_chain(c)).map(|ch| ch.len()).unwrap_or(1);
            ALIAS_PAGES.with(|a| a.set(a.get() + n.max(1)));
        } else if c.is_overflow {
            match guard(|| env.overflow_chain(c)) {
                Ok(chain) => {
                    for pg in chain {
                        owners.entry(pg).or_default().push(format!("overflow link of cell {i} on page {id} ({tag}{})", if p.is_leaf { "" } else { ", interior separator" }));
                        *n_ovf += 1;
                    }
                }
                Err(e) => problems.push(format!("page {id} cell {i}: overflow chain unreadable: {e}")),
            }
        }
        digest.push_str(&format!("{}{}:{},", c.total_size, if c.is_overflow { "o" } else { "" }, c.left_child.map(|x| x.to_string()).unwrap_or_default()));
    }
    digest.push_str(&format!("r{:?}n{:?}p{:?}]", p.right_child, p.next, p.prev));
    for w in keys.windows(2) {
        if key_cmp(&w[0], &w[1]) != std::cmp::Ordering::Less {
            problems.push(format!("page {id}: keys not strictly increasing within the page: {:?} then {:?}", w[0], w[1]));
        }
    }
    if let (Some(lo), Some(first)) = (lo, keys.first()) {
        if key_cmp(first, lo) == std::cmp::Ordering::Less {
            problems.push(format!("page {id}: key {:?} is below the separator {:?} that routes to it", first, lo));
        }
    }
    if let (Some(hi), Some(last)) = (hi, keys.last()) {
        if key_cmp(last, hi) == std::cmp::Ordering::Greater {
            problems.push(format!("page {id}: key {:?} is above the separator {:?} that bounds it", last, hi));
        }
    }
    if !is_root && keys.is_empty() {
        problems.push(format!("non-root page {id} has no cells"));
    }
    if p.is_leaf {
        for (i, c) in p.cells.iter().enumerate() {
            if c.left_child.is_some() {
                problems.push(format!("leaf {id} cell {i} has a left child pointer"));
            }
        }
        leaves.push((id, depth, keys, p.next, p.prev));
    } else {
        for (i, c) in p.cells.iter().enumerate() {
            let Some(child) = c.left_child else {
                problems.push(format!("interior page {id} cell {i} has no left child"));
                continue;
            };
            let lo2 = if i == 0 { lo } else { Some(&keys[i - 1]) };
            walk(env, t, child, depth + 1, lo2, Some(&keys[i]), owners, leaves, problems, digest, n_tree, n_ovf, false);
        }
        if let Some(rc) = p.right_child {
            walk(env, t, rc, depth + 1, keys.last().or(lo), hi, owners, leaves, problems, digest, n_tree, n_ovf, false);
        }
    }
}

pub fn audit(env: &TreeEnv, trees: &[&TreeHandle]) -> Audit {
    ALIAS_PAGES.with(|a| a.set(0));
    let mut owners: BTreeMap<u64, Vec<String>> = BTreeMap::new();
    let mut structure = vec![];
    let mut ownership = vec![];
    let mut digest = String::new();
    let (mut n_tree, mut n_ovf) = (0usize, 0usize);
    let mut height = 0;
    for t in trees {
        let mut leaves = vec![];
        walk(env, t, t.root, 0, None, None, &mut owners, &mut leaves, &mut structure, &mut digest, &mut n_tree, &mut n_ovf, true);
        // all leaves at one depth
        let depths: BTreeSet<usize> = leaves.iter().map(|l| l.1).collect();
        if depths.len() > 1 {
            structure.push(format!("tree@{}: leaves at different depths {:?}", t.root, depths));
        }
        height = height.max(depths.iter().max().copied().unwrap_or(0) + 1);
        // sibling chain mirrors key order
        for (i, l) in leaves.iter().enumerate() {
            let exp_prev = if i == 0 { None } else { Some(leaves[i - 1].0) };
            let exp_next = leaves.get(i + 1).map(|x| x.0);
            if l.4 != exp_prev {
                structure.push(format!("tree@{}: leaf {} has previous-sibling {:?}, key order says {:?}", t.root, l.0, l.4, exp_prev));
            }
            if l.3 != exp_next {
                structure.push(format!("tree@{}: leaf {} has next-sibling {:?}, key order says {:?}", t.root, l.0, l.3, exp_next));
            }
        }
        // keys increasing across the leaf chain
        let all: Vec<&Key> = leaves.iter().flat_map(|l| l.2.iter()).collect();
        for w in all.windows(2) {
            if key_cmp(w[0], w[1]) != std::cmp::Ordering::Less {
                structure.push(format!("tree@{}: keys not strictly increasing across leaves: {:?} then {:?}", t.root, w[0], w[1]));
            }
        }
    }
    let hdr = facade::header_of(env.pager());
    let free = match guard(|| facade::free_list(env.pager())) {
        Ok(f) => f,
        Err(e) => {
            ownership.push(format!("free list: {e}"));
            vec![]
        }
    };
    for f in &free {
        owners.entry(*f).or_default().push("free list".into());
    }
    if free.first().copied() != hdr.first_free || (free.last().copied() != hdr.last_free) {
        ownership.push(format!("free list head/tail recorded as {:?}/{:?} but the chain is {:?}", hdr.first_free, hdr.last_free, free));
    }
    for id in 1..hdr.total_pages {
        match owners.get(&id) {
            None => ownership.push(format!("page {id} has no owner (not in any tree, not in an overflow chain, not in the free list): leaked")),
            Some(o) if o.len() > 1 => ownership.push(format!("page {id} has {} owners: {}", o.len(), o.join(" + "))),
            _ => {}
        }
    }
    for (id, o) in &owners {
        if *id == 0 || *id >= hdr.total_pages {
            ownership.push(format!("page {id} is referenced ({}) but the file has only {} pages", o.join(" + "), hdr.total_pages));
        }
    }
    digest.push_str(&format!("free{:?}tp{}", free, hdr.total_pages));
    Audit { alias_pages: ALIAS_PAGES.with(|a| a.get()), structure, ownership, digest, pages_tree: n_tree, pages_overflow: n_ovf, pages_free: free.len(), height, total_pages: hdr.total_pages, free }
}

fn check_map(env: &TreeEnv, kind: Kind, st: &TreeState, probe_keys: &[u32]) -> Vec<String> {
    let mut out = vec![];
    for k in probe_keys {
        let key = key_of(kind, *k);
        match guard(|| env.search(&st.handle, &key)) {
            Ok(got) => {
                let want = st.model.get(k).map(|x| &x.1);
                if got.as_ref() != want {
                    if let (Some(g), Some(w)) = (&got, want) {
                        if g.len() == w.len() {
                            let first = g.iter().zip(w.iter()).position(|(a, b)| a != b).unwrap_or(0);
                            let last = g.len() - g.iter().rev().zip(w.iter().rev()).position(|(a, b)| a != b).unwrap_or(0);
                            out.push(format!("lookup of {:?}: payload of the right length ({} B) but bytes {}..{} differ from what was stored (first differing byte: got {:#04x}, stored {:#04x})", key, g.len(), first, last, g[first], w[first]));
                            continue;
                        }
                    }
                    out.push(format!("lookup of {:?}: {} but the model says {}", key, got.map(|g| format!("found {} B", g.len())).unwrap_or("not found".into()), want.map(|w| format!("present with {} B", w.len())).unwrap_or("absent".into())));
                }
            }
            Err(e) => out.push(format!("lookup of {:?} failed: {e}", key)),
        }
    }
    let mut expect: Vec<(Key, &Vec<u8>)> = st.model.iter().map(|(k, v)| (key_of(kind, *k), &v.1)).collect();
    expect.sort_by(|a, b| key_cmp(&a.0, &b.0));
    match guard(|| env.scan(&st.handle)) {
        Ok(got) => {
            if got.len() != expect.len() || got.iter().zip(expect.iter()).any(|(g, e)| g.0 != e.0 || &g.1 != e.1) {
                out.push(format!("forward scan returns keys {:?}, expected {:?}", got.iter().map(|g| &g.0).collect::<Vec<_>>(), expect.iter().map(|e| &e.0).collect::<Vec<_>>()));
            }
        }
        Err(e) => out.push(format!("forward scan failed: {e}")),
    }
    match guard(|| env.scan_backward(&st.handle)) {
        Ok(got) => {
            let rev: Vec<&Key> = expect.iter().rev().map(|e| &e.0).collect();
            if got.iter().map(|g| &g.0).collect::<Vec<_>>() != rev {
                out.push(format!("backward scan returns keys {:?}, expected {:?}", got.iter().map(|g| &g.0).collect::<Vec<_>>(), rev));
            }
        }
        Err(e) => out.push(format!("backward scan failed: {e}")),
    }
    out
}

pub fn run_once(p: &BtParams, hist: &[usize]) -> StepReport {
    let mut rep = StepReport::default();
    ALIAS_QUIRK.with(|q| q.set(p.mode == "C11" && p.triggers.iter().any(|t| t == "KT-separator-aliases-overflow-chain")));
    let dir = fresh_dir("bt");
    let env = match TreeEnv::create(&dir.join("t.axm"), p.cfg.to_db()) {
        Ok(e) => e,
        Err(e) => {
            rep.status = "machinery".into();
            rep.detail = e;
            return rep;
        }
    };
    let mk = |env: &TreeEnv| -> Result<TreeState, String> { Ok(TreeState { handle: env.new_tree(kkind(p.kind))?, model: BTreeMap::new(), touched: BTreeSet::new(), seed_n: 0, run_off: [0; 3] }) };
    let (mut t1, mut t2) = match (mk(&env), mk(&env)) {
        (Ok(a), Ok(b)) => (a, b),
        _ => {
            rep.status = "machinery".into();
            rep.detail = "cannot allocate roots".into();
            return rep;
        }
    };
    let page = p.cfg.page_size;
    let mut ops: Vec<&TOp> = p.prefix.iter().collect();
    let np = ops.len();
    for i in hist {
        ops.push(&p.alphabet[*i]);
    }
    // every key that occurs anywhere is probed after every operation
    let mut probe: BTreeSet<u32> = BTreeSet::new();
    for o in p.prefix.iter().chain(p.alphabet.iter()) {
        match o {
            TOp::Put(k, _) | TOp::Insert(k, _) | TOp::Update(k, _) | TOp::Remove(k) | TOp::Put2(k, _) | TOp::Remove2(k) => {
                probe.insert(*k as u32);
            }
            _ => {}
        }
    }
    let probe: Vec<u32> = probe.into_iter().collect();
    let mut log = vec![];
    let mut counters: BTreeMap<String, u64> = BTreeMap::new();
    let mut c10: Option<String> = None;
    let mut c11: Option<String> = None;
    let mut alias_seen = false;
    let mut dangling_alias: Option<String> = None;
    let mut last_audit: Option<Audit> = None;
    for (i, op) in ops.iter().enumerate() {
        let stamp = i as u32 + 1;
        let before = last_audit.as_ref().map(|a| (a.total_pages, a.free.clone(), a.height));
        let mut line = op.show();
        let res: Result<(), String> = match op {
            TOp::Put(k, s) => {
                let v = payload(page, *k as u32, *s, stamp);
                let r = guard(|| env.upsert(&t1.handle, &key_of(p.kind, *k as u32), &v, 1));
                if r.is_ok() {
                    t1.model.insert(*k as u32, (*s, v));
                }
                r
            }
            TOp::Insert(k, s) => {
                let v = payload(page, *k as u32, *s, stamp);
                let r = guard(|| env.insert(&t1.handle, &key_of(p.kind, *k as u32), &v, 1));
                let present = t1.model.contains_key(&(*k as u32));
                match (&r, present) {
                    (Ok(()), false) => {
                        t1.model.insert(*k as u32, (*s, v));
                        Ok(())
                    }
                    (Err(_), true) => {
                        line.push_str(" -> rejected (duplicate)");
                        Ok(())
                    }
                    (Ok(()), true) => Err("insert of a key that is present was accepted".into()),
                    (Err(e), false) => Err(format!("insert of an absent key failed: {e}")),
                }
            }
            TOp::Update(k, s) => {
                let v = payload(page, *k as u32, *s, stamp);
                let r = guard(|| env.update(&t1.handle, &key_of(p.kind, *k as u32), &v, 1));
                let present = t1.model.contains_key(&(*k as u32));
                match (&r, present) {
                    (Ok(()), true) => {
                        t1.model.insert(*k as u32, (*s, v));
                        Ok(())
                    }
                    (Err(_), false) => {
                        line.push_str(" -> rejected (missing)");
                        Ok(())
                    }
                    (Ok(()), false) => Err("update of an absent key was accepted".into()),
                    (Err(e), true) => Err(format!("update of a present key failed: {e}")),
                }
            }
            TOp::Remove(k) => {
                let r = guard(|| env.remove(&t1.handle, &key_of(p.kind, *k as u32)));
                let present = t1.model.contains_key(&(*k as u32));
                match (&r, present) {
                    (Ok(()), true) => {
                        t1.model.remove(&(*k as u32));
                        Ok(())
                    }
                    (Err(_), false) => {
                        line.push_str(" -> rejected (missing)");
                        Ok(())
                    }
                    (Ok(()), false) => Err("remove of an absent key was accepted".into()),
                    (Err(e), true) => Err(format!("remove of a present key failed: {e}")),
                }
            }
            TOp::Put2(k, s) => {
                let v = payload(page, *k as u32, *s, stamp);
                let r = guard(|| env.upsert(&t2.handle, &key_of(p.kind, *k as u32), &v, 1));
                if r.is_ok() {
                    t2.model.insert(*k as u32, (*s, v));
                }
                r
            }
            TOp::Remove2(k) => {
                let r = guard(|| env.remove(&t2.handle, &key_of(p.kind, *k as u32)));
                let present = t2.model.contains_key(&(*k as u32));
                match (&r, present) {
                    (Ok(()), true) => {
                        t2.model.remove(&(*k as u32));
                        Ok(())
                    }
                    (Err(_), false) => Ok(()),
                    (Ok(()), false) => Err("remove of an absent key was accepted".into()),
                    (Err(e), true) => Err(format!("remove of a present key failed: {e}")),
                }
            }
            TOp::SeedRun(count, sz, desc) => {
                let mut nums: Vec<u32> = (0..*count as u32).map(|i| 100 + 100 * i).collect();
                if *desc {
                    nums.reverse();
                }
                t1.seed_n = *count as u32;
                let mut r = Ok(());
                for n in nums {
                    let v = payload(page, n, *sz, stamp);
                    match guard(|| env.insert(&t1.handle, &key_of(p.kind, n), &v, 1)) {
                        Ok(()) => {
                            t1.model.insert(n, (*sz, v));
                            t1.touched.insert(n);
                        }
                        Err(e) => {
                            r = Err(format!("insert of seed key #{n} failed: {e}"));
                            break;
                        }
                    }
                }
                r
            }
            TOp::InsRun(region, count, sz) => {
                let base = match region {
                    0 => 101,
                    1 => 100 + 100 * (t1.seed_n / 2) + 1,
                    _ => 100 + 100 * t1.seed_n.max(1) + 1,
                };
                let mut r = Ok(());
                for _ in 0..*count {
                    let n = base + t1.run_off[*region as usize % 3];
                    t1.run_off[*region as usize % 3] += 1;
                    let v = payload(page, n, *sz, stamp);
                    match guard(|| env.insert(&t1.handle, &key_of(p.kind, n), &v, 1)) {
                        Ok(()) => {
                            t1.model.insert(n, (*sz, v));
                            t1.touched.insert(n);
                        }
                        Err(e) => {
                            r = Err(format!("insert of run key #{n} failed: {e}"));
                            break;
                        }
                    }
                }
                r
            }
            TOp::KeyLen(len) => guard(|| key_len_case(&env, &t1.handle, *len as usize, page)),
            TOp::InsAt(gap, isz) => {
                let n = 100 + 100 * (*gap as u32) + 50 + t1.run_off[1] % 40;
                t1.run_off[1] += 1;
                let v = payload(page, n, *isz, stamp);
                match guard(|| env.insert(&t1.handle, &key_of(p.kind, n), &v, 1)) {
                    Ok(()) => {
                        t1.model.insert(n, (*isz, v));
                        t1.touched.insert(n);
                        Ok(())
                    }
                    Err(e) => Err(format!("insert of key #{n} failed: {e}")),
                }
            }
            TOp::RemRun(region, count) | TOp::RemRunT(region, count) => {
                let by_tuple = matches!(op, TOp::RemRunT(..));
                let (lo, hi) = match region {
                    0 => (100, 100 + 100 * (t1.seed_n / 3).max(1)),
                    1 => (100 + 100 * (t1.seed_n / 3).max(1), 100 + 100 * (2 * t1.seed_n / 3).max(2)),
                    _ => (100 + 100 * (2 * t1.seed_n / 3).max(2), u32::MAX),
                };
                let victims: Vec<u32> = t1.model.range(lo..hi).map(|(k, _)| *k).take(*count as usize).collect();
                let mut r = Ok(());
                for n in victims {
                    match guard(|| if by_tuple { env.remove_tuple(&t1.handle, &key_of(p.kind, n)) } else { env.remove(&t1.handle, &key_of(p.kind, n)) }) {
                        Ok(()) => {
                            t1.model.remove(&n);
                        }
                        Err(e) => {
                            r = Err(format!("remove of present key #{n} failed: {e}"));
                            break;
                        }
                    }
                }
                r
            }
            TOp::Grow2(count, sz) => {
                let mut r = Ok(());
                for _ in 0..*count {
                    let n = 100 + 100 * t2.run_off[0];
                    t2.run_off[0] += 1;
                    let v = payload(page, n, *sz, stamp);
                    match guard(|| env.insert(&t2.handle, &key_of(p.kind, n), &v, 1)) {
                        Ok(()) => {
                            t2.model.insert(n, (*sz, v));
                            t2.touched.insert(n);
                        }
                        Err(e) => {
                            r = Err(format!("tree2: insert of key #{n} failed: {e}"));
                            break;
                        }
                    }
                }
                r
            }
            TOp::Dealloc2 => match guard(|| env.dealloc_tree(&t2.handle)) {
                Ok(()) => match mk(&env) {
                    Ok(n) => {
                        t2 = n;
                        Ok(())
                    }
                    Err(e) => Err(format!("new root after dealloc: {e}")),
                },
                Err(e) => Err(format!("dealloc of the second tree failed: {e}")),
            },
        };
        log.push(line);
        if let Err(e) = res {
            c10 = Some(format!("{}: {e}", op.show()));
            break;
        }
        let in_prefix = i + 1 < np;
        if in_prefix && !p.audit_prefix {
            // long seed prefixes are audited once, when they are complete
            continue;
        }
        let probe1: Vec<u32> = probe.iter().copied().chain(t1.touched.iter().copied()).collect::<BTreeSet<_>>().into_iter().collect();
        let probe2: Vec<u32> = probe.iter().copied().chain(t2.touched.iter().copied()).collect::<BTreeSet<_>>().into_iter().collect();
        let mut map_problems = check_map(&env, p.kind, &t1, &probe1);
        map_problems.extend(check_map(&env, p.kind, &t2, &probe2).into_iter().map(|s| format!("tree2: {s}")));
        let a = audit(&env, &[&t1.handle, &t2.handle]);
        if std::env::var("VERIF_BT_DUMP").is_ok() {
            eprintln!("after {}: {}\n   structure: {:?}\n   ownership: {:?}\n   map: {:?}", op.show(), a.digest, a.structure, a.ownership.iter().take(3).collect::<Vec<_>>(), map_problems.iter().take(2).collect::<Vec<_>>());
        }
        if a.height >= 2 {
            *counters.entry("states_with_height_ge_2".into()).or_insert(0) += 1;
        }
        if a.height >= 3 {
            *counters.entry("states_with_height_ge_3".into()).or_insert(0) += 1;
        }
        if a.height >= 4 {
            *counters.entry("states_with_height_ge_4".into()).or_insert(0) += 1;
        }
        if a.pages_overflow > 0 {
            *counters.entry("states_with_overflow_chains".into()).or_insert(0) += 1;
        }
        if a.pages_free > 0 {
            *counters.entry("states_with_free_pages".into()).or_insert(0) += 1;
        }
        if let Some((tp, free_before, h)) = &before {
            if a.height != *h {
                *counters.entry("height_changes".into()).or_insert(0) += 1;
            }
            // liveness half of C11: the file must not grow while pages that were free stay free
            if a.total_pages > *tp {
                let still: Vec<u64> = free_before.iter().filter(|f| a.free.contains(f)).copied().collect();
                if !still.is_empty() && c11.is_none() {
                    c11 = Some(format!("{}: the file grew from {} to {} pages although pages {:?} were free before and are still free", op.show(), tp, a.total_pages, still));
                }
            }
        }
        if c10.is_none() {
            if let Some(m) = map_problems.first() {
                c10 = Some(format!("after {}: {m}", op.show()));
            } else if let Some(s) = a.structure.first() {
                c10 = Some(format!("after {}: {s}", op.show()));
            }
        }
        if a.ownership.iter().any(|o| o.contains("interior separator")) || a.alias_pages > 0 {
            alias_seen = true;
        }
        if c11.is_none() {
            if let Some(o) = a.ownership.first() {
                // the page walk itself broke on a key that can no longer be read through a separator whose aliased chain
                // was released with its leaf cell and reused (the downstream effect the property text itself describes
                // for the listed alias finding): the ownership census of such a walk is meaningless
                let walk_broken = a.structure.iter().any(|s| s.contains("cannot be decoded") || s.contains("chain unreadable"));
                if walk_broken && alias_seen && ALIAS_QUIRK.with(|q| q.get()) {
                    dangling_alias = Some(format!("after {}: {} (and {o})", op.show(), a.structure.first().cloned().unwrap_or_default()));
                } else {
                    c11 = Some(format!("after {}: {o}", op.show()));
                }
            }
        }
        last_audit = Some(a);
        let _ = (i, np);
        if p.mode != "C11" {
            c11 = None;
        }
        if c10.is_some() || c11.is_some() || dangling_alias.is_some() {
            break;
        }
    }
    let digest = last_audit.as_ref().map(|a| a.digest.clone()).unwrap_or_default();
    let model_key: Vec<(u32, Sz)> = t1.model.iter().map(|(k, v)| (*k, v.0)).collect();
    let model_key2: Vec<(u32, Sz)> = t2.model.iter().map(|(k, v)| (*k, v.0)).collect();
    {
        use std::hash::{Hash, Hasher};
        let mut h = std::collections::hash_map::DefaultHasher::new();
        (&model_key, &model_key2, &digest, &t1.run_off, &t2.run_off).hash(&mut h);
        rep.key = format!("{:016x}:{}:{}", h.finish(), model_key.len(), model_key2.len());
    }
    rep.counters = counters;
    if let Some(a) = &last_audit {
        rep.outcome = format!("h{}t{}o{}f{}", a.height, a.pages_tree, a.pages_overflow, a.pages_free);
    }
    drop(env);
    let _ = std::fs::remove_dir_all(&dir);
    // C10: once an interior separator shares an overflow chain with its leaf cell (listed C11 finding), releasing
    // that chain leaves the separator pointing at freed, later reused pages, and key comparisons through it fail.
    // Such a history is not judged by C10 from the first aliasing on.
    let alias_id = "KT-separator-aliases-overflow-chain";
    let divider_hit = c10.as_ref().map_or(false, |f| p.triggers.iter().any(|t| t == "KT-divider-does-not-fit-parent" && trigger_matches(t, f, &ops)));
    if p.mode == "C10" && c10.is_some() && !divider_hit && p.triggers.iter().any(|t| t == alias_id) && alias_seen {
        rep.status = "tainted".into();
        rep.findings = vec![alias_id.to_string()];
        rep.detail = format!("{}\n{}", c10.clone().unwrap(), log.join("\n"));
        rep.stop = true;
        return rep;
    }
    if p.mode == "C11" {
        if let Some(d) = dangling_alias {
            rep.status = "known".into();
            rep.findings = vec![alias_id.to_string()];
            rep.detail = format!("{d}\n{}", log.join("\n"));
            rep.stop = true;
            return rep;
        }
    }
    let deciding = if p.mode == "C11" { c11.clone() } else { c10.clone() };
    // C10 does not depend on who owns which page; C11's audit is meaningless on a tree that is functionally broken
    let other = if p.mode == "C11" { c10 } else { None };
    if let Some(f) = deciding {
        let known = p.triggers.iter().find(|t| trigger_matches(t, &f, &ops));
        if let Some(k) = known {
            rep.status = "known".into();
            rep.findings = vec![k.clone()];
        } else {
            rep.status = "violation".into();
        }
        rep.detail = format!("{f}\n{}", log.join("\n"));
        rep.stop = true;
    } else if other.is_some() {
        // the other property's oracle failed: this history is not extended (its state is unsound), not judged here
        rep.status = "tainted".into();
        rep.findings = vec![format!("other-oracle: {}", other.unwrap())];
        rep.stop = true;
    } else if p.mode == "C11" && alias_seen && ALIAS_QUIRK.with(|q| q.get()) {
        // the listed finding re-observed in its exact shape (separators aliasing chains); the history goes on
        rep.status = "known".into();
        rep.findings = vec!["KT-separator-aliases-overflow-chain".into()];
        rep.detail = format!("interior separators alias overflow chains of leaf cells (non-owning copies)\n{}", log.join("\n"));
        rep.stop = false;
    } else {
        rep.status = "ok".into();
    }
    rep
}

/// Known-finding triggers for the tree engine: (id, predicate on the failure text / operation list).
fn trigger_matches(id: &str, failure: &str, ops: &[&TOp]) -> bool {
    let big = |s: &Sz| matches!(s, Sz::Third | Sz::OneHalf | Sz::Three);
    let has_big = ops.iter().any(|o| match o {
        TOp::Put(_, s) | TOp::Insert(_, s) | TOp::Update(_, s) | TOp::Put2(_, s) | TOp::InsRun(_, _, s) | TOp::Grow2(_, s) | TOp::SeedRun(_, s, _) | TOp::InsAt(_, s) => big(s),
        _ => false,
    });
    match id {
        "KT-separator-aliases-overflow-chain" => failure.contains("owners") && failure.contains("interior separator") && has_big,
        // the operation itself fails, with the storage-full error raised by the page insert that rebalancing does on the parent
        "KT-divider-does-not-fit-parent" => failure.contains("failed:") && failure.contains("Attempted to insert with overflow on a btreepage"),
        _ => false,
    }
}

pub fn worker(params: &Value, case: &Value) -> Value {
    let p: BtParams = serde_json::from_value(params.clone()).expect("btree params");
    let hist: Vec<usize> = serde_json::from_value(case["hist"].clone()).expect("hist");
    let mut rep = run_once(&p, &hist);
    if rep.status == "violation" {
        let first_line = crate::explore::failure_signature;
        let mut n = 0;
        for _ in 0..2 {
            let r2 = run_once(&p, &hist);
            if r2.status == "violation" && first_line(&r2.detail) == first_line(&rep.detail) {
                n += 1;
            }
        }
        rep.reproduced = n;
    }
    serde_json::to_value(rep).unwrap()
}
