pub mod btree;
pub mod crash;
pub mod seq;
pub mod wal;
pub mod wire;
