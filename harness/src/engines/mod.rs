pub mod crash;
pub mod seq;
