pub mod btree;
pub mod crash;
pub mod seq;
pub mod sqlenum;
pub mod tuple;
pub mod values;
pub mod wal;
pub mod wire;
