pub mod crash;
pub mod seq;
pub mod wire;
