pub mod seq;
