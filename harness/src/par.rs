//! Sharded execution of independent cases in worker subprocesses of this same binary.
//!
//! Every case runs in a worker process so that an abort, a stack overflow or a hang of the
//! engine is attributed to exactly that case and never takes the exploration down. The
//! worker carries its own watchdog: when a case exceeds the time limit it records a hang
//! for that case and exits; the orchestrator restarts it on the remaining cases.

use serde_json::Value;
use std::io::{BufRead, BufReader, Write};
use std::path::PathBuf;
use std::process::{Child, Command, Stdio};
use std::sync::atomic::{AtomicI64, AtomicU64, Ordering};
use std::time::{Duration, Instant};

#[derive(Debug, Clone)]
pub enum CaseRes {
    Done(Value),
    /// the worker process died while running this case (abort, stack overflow, kill)
    Crashed(String),
    /// the case did not return within the watchdog limit
    Hung,
}

pub type WorkerFn = fn(&Value, &Value) -> Value;

pub fn nworkers() -> usize {
    std::env::var("VERIF_JOBS").ok().and_then(|s| s.parse().ok()).unwrap_or_else(|| {
        std::thread::available_parallelism().map(|n| n.get()).unwrap_or(4).min(16)
    })
}

static RUN_COUNTER: AtomicU64 = AtomicU64::new(0);

struct Shard {
    child: Option<Child>,
    outfile: PathBuf,
    shard: usize,
    restarts: usize,
    done: bool,
}

fn spawn(engine: &str, casefile: &PathBuf, shard: usize, n: usize, outfile: &PathBuf, timeout_s: u64) -> Child {
    Command::new(std::env::current_exe().expect("current_exe"))
        .arg("--worker")
        .arg(engine)
        .arg(casefile)
        .arg(shard.to_string())
        .arg(n.to_string())
        .arg(outfile)
        .arg(timeout_s.to_string())
        .stdin(Stdio::null())
        .stdout(Stdio::null())
        .stderr(if std::env::var("VERIF_WORKER_STDERR").is_ok() { Stdio::inherit() } else { Stdio::null() })
        .spawn()
        .expect("spawn worker")
}

/// Run all cases; result i corresponds to case i.
pub fn run_cases(engine: &str, params: &Value, cases: &[Value], timeout_s: u64) -> Vec<CaseRes> {
    if cases.is_empty() {
        return vec![];
    }
    let run = RUN_COUNTER.fetch_add(1, Ordering::Relaxed);
    let root = crate::sqldrv::scratch_root();
    std::fs::create_dir_all(&root).unwrap();
    let casefile = root.join(format!("cases-{run}.jsonl"));
    {
        let mut f = std::io::BufWriter::new(std::fs::File::create(&casefile).unwrap());
        writeln!(f, "{}", serde_json::to_string(params).unwrap()).unwrap();
        for c in cases {
            writeln!(f, "{}", serde_json::to_string(c).unwrap()).unwrap();
        }
    }
    let n = nworkers().min(cases.len()).max(1);
    let mut shards: Vec<Shard> = (0..n)
        .map(|s| {
            let outfile = root.join(format!("out-{run}-{s}.jsonl"));
            let _ = std::fs::remove_file(&outfile);
            Shard { child: Some(spawn(engine, &casefile, s, n, &outfile, timeout_s)), outfile, shard: s, restarts: 0, done: false }
        })
        .collect();

    let mut child_pids: Vec<u32> = vec![];
    // A change that makes a whole class of cases hang or kill their worker must not turn a check into an hours-long
    // run (every such case costs a watchdog period): after this many bad cases in one batch the rest is not run.
    let max_bad: usize = std::env::var("VERIF_MAX_BAD_CASES").ok().and_then(|s| s.parse().ok()).unwrap_or(24);
    let mut bad_cases = 0usize;
    let mut gave_up = false;
    loop {
        if bad_cases > max_bad && !gave_up {
            gave_up = true;
            for sh in shards.iter_mut() {
                if !sh.done {
                    if let Some(ch) = sh.child.as_mut() {
                        let _ = ch.kill();
                        let _ = ch.wait();
                        child_pids.push(ch.id());
                    }
                    sh.done = true;
                }
            }
        }
        let mut all_done = true;
        for sh in shards.iter_mut() {
            if sh.done {
                continue;
            }
            all_done = false;
            let ch = sh.child.as_mut().unwrap();
            match ch.try_wait() {
                Ok(Some(status)) => {
                    child_pids.push(ch.id());
                    if status.success() {
                        sh.done = true;
                    } else {
                        // died or hung on a case: restart on the remaining ones
                        sh.restarts += 1;
                        bad_cases += 1;
                        if sh.restarts > cases.len() + 5 {
                            sh.done = true;
                        } else {
                            // make sure the in-flight case is marked
                            mark_inflight(&sh.outfile, &format!("{status}"));
                            sh.child = Some(spawn(engine, &casefile, sh.shard, n, &sh.outfile, timeout_s));
                        }
                    }
                }
                Ok(None) => {}
                Err(_) => {
                    sh.done = true;
                }
            }
        }
        if all_done {
            break;
        }
        std::thread::sleep(Duration::from_millis(5));
    }
    for pid in child_pids {
        let _ = std::fs::remove_dir_all(root.parent().unwrap().join(format!("verif-{pid}")));
    }

    let mut res: Vec<Option<CaseRes>> = vec![None; cases.len()];
    for sh in &shards {
        if let Ok(f) = std::fs::File::open(&sh.outfile) {
            for line in BufReader::new(f).lines().map_while(Result::ok) {
                let mut it = line.splitn(3, ' ');
                let tag = it.next().unwrap_or("");
                let idx: usize = match it.next().and_then(|s| s.parse().ok()) {
                    Some(i) => i,
                    None => continue,
                };
                if idx >= cases.len() {
                    continue;
                }
                let rest = it.next().unwrap_or("");
                match tag {
                    "R" => {
                        if let Ok(v) = serde_json::from_str(rest) {
                            res[idx] = Some(CaseRes::Done(v));
                        }
                    }
                    "H" => res[idx] = Some(CaseRes::Hung),
                    "X" => res[idx] = Some(CaseRes::Crashed(rest.to_string())),
                    _ => {}
                }
            }
        }
        let _ = std::fs::remove_file(&sh.outfile);
    }
    let _ = std::fs::remove_file(&casefile);
    let missing = if gave_up { format!("not run: more than {max_bad} cases of this batch hung or killed their worker") } else { "no result recorded".to_string() };
    res.into_iter().map(|r| r.unwrap_or(CaseRes::Crashed(missing.clone()))).collect()
}

/// If the last started case of an outfile has no result line, record it as crashed.
fn mark_inflight(outfile: &PathBuf, status: &str) {
    let mut started: Option<usize> = None;
    let mut finished = std::collections::BTreeSet::new();
    if let Ok(f) = std::fs::File::open(outfile) {
        for line in BufReader::new(f).lines().map_while(Result::ok) {
            let mut it = line.splitn(3, ' ');
            let tag = it.next().unwrap_or("");
            if let Some(idx) = it.next().and_then(|s| s.parse::<usize>().ok()) {
                match tag {
                    "S" => started = Some(idx),
                    "R" | "H" | "X" => {
                        finished.insert(idx);
                    }
                    _ => {}
                }
            }
        }
    }
    if let Some(i) = started {
        if !finished.contains(&i) {
            if let Ok(mut f) = std::fs::OpenOptions::new().append(true).open(outfile) {
                let _ = writeln!(f, "X {i} worker exited with {status}");
            }
        }
    }
}

static CASE_START_MS: AtomicI64 = AtomicI64::new(-1);
static CASE_IDX: AtomicU64 = AtomicU64::new(0);

/// Entry point of a worker process.
pub fn worker_main(args: &[String], lookup: fn(&str) -> Option<WorkerFn>) -> i32 {
    let engine = &args[0];
    let casefile = PathBuf::from(&args[1]);
    let shard: usize = args[2].parse().unwrap();
    let n: usize = args[3].parse().unwrap();
    let outfile = PathBuf::from(&args[4]);
    let timeout_s: u64 = args[5].parse().unwrap();
    let f = match lookup(engine) {
        Some(f) => f,
        None => return 2,
    };
    // which cases were already started by a previous incarnation of this shard
    let mut started = std::collections::BTreeSet::new();
    if let Ok(fh) = std::fs::File::open(&outfile) {
        for line in BufReader::new(fh).lines().map_while(Result::ok) {
            let mut it = line.splitn(3, ' ');
            let _ = it.next();
            if let Some(idx) = it.next().and_then(|s| s.parse::<usize>().ok()) {
                started.insert(idx);
            }
        }
    }
    let out_path = outfile.clone();
    let t0 = Instant::now();
    std::thread::spawn(move || loop {
        std::thread::sleep(Duration::from_millis(50));
        let s = CASE_START_MS.load(Ordering::SeqCst);
        if s >= 0 {
            let now = t0.elapsed().as_millis() as i64;
            if now - s > (timeout_s as i64) * 1000 {
                let idx = CASE_IDX.load(Ordering::SeqCst);
                if let Ok(mut f) = std::fs::OpenOptions::new().append(true).create(true).open(&out_path) {
                    let _ = writeln!(f, "H {idx} watchdog {timeout_s}s");
                    let _ = f.flush();
                }
                let _ = std::fs::remove_dir_all(crate::sqldrv::scratch_root());
                unsafe { libc::_exit(3) };
            }
        }
    });
    let fh = std::fs::File::open(&casefile).expect("open casefile");
    let mut lines = BufReader::new(fh).lines();
    let params: Value = serde_json::from_str(&lines.next().unwrap().unwrap()).unwrap();
    let mut out = std::fs::OpenOptions::new().append(true).create(true).open(&outfile).expect("open outfile");
    for (idx, line) in lines.enumerate() {
        let line = line.unwrap();
        if idx % n != shard || started.contains(&idx) {
            continue;
        }
        let case: Value = serde_json::from_str(&line).unwrap();
        writeln!(out, "S {idx}").unwrap();
        out.flush().unwrap();
        CASE_IDX.store(idx as u64, Ordering::SeqCst);
        CASE_START_MS.store(t0.elapsed().as_millis() as i64, Ordering::SeqCst);
        let r = std::panic::catch_unwind(std::panic::AssertUnwindSafe(|| f(&params, &case)));
        CASE_START_MS.store(-1, Ordering::SeqCst);
        match r {
            Ok(v) => writeln!(out, "R {idx} {}", serde_json::to_string(&v).unwrap()).unwrap(),
            Err(_) => writeln!(out, "X {idx} harness-side panic: {}", crate::sqldrv::last_panic()).unwrap(),
        }
        out.flush().unwrap();
    }
    0
}
